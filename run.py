#!/venv/bin/python
"""./run.py <PROPERTY-ID> [--tier quick|thorough] [--replay FILE]

Exit 0: property held on everything explored; 1: VIOLATION line(s) printed;
2: machinery failure."""
import argparse
import importlib
import os
import sys

HERE = os.path.dirname(os.path.abspath(__file__))
sys.path.insert(0, HERE)
os.environ.setdefault('PYTHONHASHSEED', '0')

from harness import core  # noqa: E402

MODULES = {
    'C01': 'checks.total', 'C07': 'checks.total',
    'C02': 'checks.flow', 'C06': 'checks.special', 'C13': 'checks.replace', 'C20': 'checks.shellchecks', 'C03': 'checks.flow', 'C04': 'checks.flow', 'C05': 'checks.flow', 'C08': 'checks.flow', 'C12': 'checks.multilang', 'C14': 'checks.shell14', 'C15': 'checks.answer15', 'C16': 'checks.html16', 'C17': 'checks.history17', 'C09': 'checks.flow', 'C18': 'checks.flow', 'C19': 'checks.flow', 'C10': 'checks.flow', 'C11': 'checks.flow',
}


def main():
    ap = argparse.ArgumentParser()
    ap.add_argument('prop')
    ap.add_argument('--tier', default=os.environ.get('VERIF_TIER', 'quick'), choices=['quick', 'thorough'])
    ap.add_argument('--replay')
    a = ap.parse_args()
    seed = int(os.environ.get('VERIF_SEED', '0') or 0)
    if a.replay:
        os.environ['VERIF_REPLAY'] = '1'
    if a.prop not in MODULES:
        print('no check for %s' % a.prop, file=sys.stderr)
        return 2
    mod = importlib.import_module(MODULES[a.prop])
    return core.main_wrapper(lambda: mod.run(a.prop, a.tier, seed, replay=a.replay))


if __name__ == '__main__':
    sys.exit(main())
