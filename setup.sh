#!/bin/sh
# nothing to build: specs are checked by TLC at run time, harness is pure Python
cd "$(dirname "$0")" && mkdir -p evidence out && tla-sany -h >/dev/null 2>&1; exit 0
