"""Thin, careful wrapper around TLC (tla2tools 1.8).

Every TLC run of the framework goes through `run()`.  It
  * writes the .cfg from a dict (so constants are literal, one source of truth
    is the .tla module),
  * runs TLC with cwd = /verif/spec under an outer timeout,
  * parses the machine-relevant part of the output: lines printed by the spec
    itself (they all start with a 2-character tag, see TAGS), the state
    counts, invariant violations / errors,
  * never interprets a TLC failure as a pass: anything unexpected raises
    TlcError, which the caller turns into exit status 2 (machinery failure).
"""
import json
import os
import re
import shutil
import subprocess
import tempfile
import time

SPEC_DIR = os.path.join(os.path.dirname(os.path.dirname(os.path.abspath(__file__))), 'spec')
JAR = '/opt/veriftools/tla/tla2tools.jar'
DEPS = '/opt/veriftools/tla/CommunityModules-deps.jar'


class TlcError(Exception):
    pass


class TlcResult:
    def __init__(self):
        self.tagged = {}          # tag -> list of payload strings (already JSON-unescaped)
        self.generated = 0
        self.distinct = 0
        self.depth = 0
        self.violated = []        # names of violated invariants / properties
        self.errors = []          # raw error lines
        self.exit = None
        self.wall = 0.0
        self.stdout = ''
        self.coverage = {}        # action name -> (distinct, total) when -coverage was on
        self.cmd = ''

    def json(self, tag):
        return [json.loads(s) for s in self.tagged.get(tag, [])]


def cfg_text(spec='Spec', init=None, next_=None, constants=None, invariants=(),
             properties=(), constraint=None, action_constraint=None, view=None,
             deadlock=False, postcondition=None, symmetry=None):
    out = []
    if init:
        out.append('INIT %s\nNEXT %s' % (init, next_))
    else:
        out.append('SPECIFICATION %s' % spec)
    if constants:
        out.append('CONSTANTS')
        for k, v in constants.items():
            out.append('  %s = %s' % (k, tla_value(v)))
    for i in invariants:
        out.append('INVARIANT %s' % i)
    for p in properties:
        out.append('PROPERTY %s' % p)
    if constraint:
        out.append('CONSTRAINT %s' % constraint)
    if action_constraint:
        out.append('ACTION_CONSTRAINT %s' % action_constraint)
    if view:
        out.append('VIEW %s' % view)
    if postcondition:
        out.append('POSTCONDITION %s' % postcondition)
    out.append('CHECK_DEADLOCK %s' % ('TRUE' if deadlock else 'FALSE'))
    return '\n'.join(out) + '\n'


def tla_value(v):
    """Python value -> TLA+ cfg literal (ints, bools, strings, sets, tuples)."""
    if isinstance(v, bool):
        return 'TRUE' if v else 'FALSE'
    if isinstance(v, int):
        if v < 0:
            raise TlcError('cfg files reject negative literals: %r' % v)
        return str(v)
    if isinstance(v, str):
        return '"' + v.replace('\\', '\\\\').replace('"', '\\"') + '"'
    if isinstance(v, (set, frozenset)):
        return '{' + ', '.join(tla_value(x) for x in sorted(v, key=repr)) + '}'
    if isinstance(v, (list, tuple)):
        return '<<' + ', '.join(tla_value(x) for x in v) + '>>'
    raise TlcError('cannot write %r into a cfg' % (v,))


_TAG = re.compile(r'^"(@[A-Z@])((?:[^"\\]|\\.)*)"\s*$')
_STATS = re.compile(r'^(\d+) states generated, (\d+) distinct states found, (\d+) states left on queue')
_DEPTH = re.compile(r'^The depth of the complete state graph search is (\d+)')
_VIOL = re.compile(r'^Error: Invariant (\S+) is violated')
_PVIOL = re.compile(r'^Error: (Temporal properties were violated|Action property (\S+) is violated|Deadlock reached)')
_SIMSTATS = re.compile(r'^The number of states generated: (\d+)')


def run(module, cfg, workers=16, simulate=None, depth=None, seed=None, env=None,
        timeout=900, coverage=False, heap='4g', keep=False, dfs=False, extra=()):
    """Run TLC on spec/<module>.tla with the given cfg text.

    simulate: None (exhaustive BFS) or number of behaviours for -simulate.
    Returns TlcResult.  Raises TlcError on timeout / crash / parse problems.
    """
    scratch = tempfile.mkdtemp(prefix='yv_tlc_')
    try:
        cfgp = os.path.join(scratch, module + '.cfg')
        with open(cfgp, 'w') as f:
            f.write(cfg)
        cmd = ['java', '-XX:+UseParallelGC', '-Xmx' + heap, '-Xss64m']
        if dfs:
            cmd.append('-Dtlc2.tool.queue.IStateQueue=StateDeque')
        cmd += ['-cp', JAR + ':' + DEPS, 'tlc2.TLC',
                '-config', cfgp, '-metadir', os.path.join(scratch, 'meta'),
                '-workers', str(workers), '-noGenerateSpecTE']
        if simulate is not None:
            cmd += ['-simulate', 'num=%d' % simulate]
            if depth:
                cmd += ['-depth', str(depth)]
        if seed is not None:
            cmd += ['-seed', str(seed)]
        if coverage:
            cmd += ['-coverage', '1']
        cmd += list(extra)
        cmd.append(module + '.tla')
        e = dict(os.environ)
        e.pop('JAVA_TOOL_OPTIONS', None)
        if env:
            e.update({k: str(v) for k, v in env.items()})
        t0 = time.time()
        try:
            p = subprocess.run(cmd, cwd=SPEC_DIR, env=e, stdout=subprocess.PIPE,
                               stderr=subprocess.STDOUT, timeout=timeout)
        except subprocess.TimeoutExpired:
            subprocess.run(['pkill', '-f', scratch], check=False)
            raise TlcError('TLC timeout after %ss: %s' % (timeout, module))
        r = TlcResult()
        r.cmd = ' '.join(cmd)
        r.wall = time.time() - t0
        r.exit = p.returncode
        r.stdout = p.stdout.decode('utf-8', 'replace')
        _parse(r)
        return r
    finally:
        if not keep:
            shutil.rmtree(scratch, ignore_errors=True)


def _parse(r):
    cur_cov = None
    for line in r.stdout.split('\n'):
        m = _TAG.match(line)
        if m:
            # the payload is a TLA+ string literal as printed by TLC: \" and \\ escaped
            payload = m.group(2)
            try:
                payload = json.loads('"' + payload + '"')
            except Exception:
                raise TlcError('cannot unescape TLC output line: ' + line[:200])
            r.tagged.setdefault(m.group(1), []).append(payload)
            continue
        m = _STATS.match(line)
        if m:
            r.generated, r.distinct = int(m.group(1)), int(m.group(2))
            continue
        m = _SIMSTATS.match(line)
        if m:
            r.generated = max(r.generated, int(m.group(1)))
            continue
        m = _DEPTH.match(line)
        if m:
            r.depth = int(m.group(1))
            continue
        m = _VIOL.match(line)
        if m:
            r.violated.append(m.group(1))
            continue
        m = _PVIOL.match(line)
        if m:
            r.violated.append(m.group(2) or m.group(1))
            continue
        if line.startswith('Error:') or 'Exception' in line and 'tlc2' in line:
            r.errors.append(line)
        m = re.match(r'^<(\w+) line \d+, col \d+ to line \d+, col \d+ of module \w+>: (\d+):(\d+)', line)
        if m:
            r.coverage[m.group(1)] = (int(m.group(2)), int(m.group(3)))


def check_ok(r, what, allow_violation=False):
    """Raise TlcError unless the run finished normally (exit 0, or an invariant
    violation when the caller expects one)."""
    if r.exit == 0 and not r.errors:
        return
    if allow_violation and r.violated and r.exit in (12, 13):
        return
    tail = '\n'.join(r.stdout.split('\n')[-40:])
    raise TlcError('%s: TLC exit %s violated=%s errors=%s\n%s' % (what, r.exit, r.violated, r.errors[:3], tail))
