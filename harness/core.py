"""Generic pipeline of a check:

   TLC (generator / model spec)  --behaviours-->  real YaLafi  --observations-->
   TLC (trace spec, Level A predicates)  --verdicts-->  exit status + evidence

Exit status: 0 property held on everything explored, 1 VIOLATION (a Level A
predicate rejected a real observation that no known finding explains),
2 machinery failure (never carries a VIOLATION line).
"""
import concurrent.futures
import hashlib
import json
import gc
import multiprocessing
import os
import random
import shutil
import sys
import tempfile
import time
import traceback

from . import tlc

VERIF = os.path.dirname(os.path.dirname(os.path.abspath(__file__)))
NCPU = min(16, os.cpu_count() or 4)


class Machinery(Exception):
    """something in the verification machinery failed (exit 2)"""


class Check:
    def __init__(self, prop, tier, seed, level='model_checking'):
        self.prop = prop
        self.tier = tier
        self.seed = seed
        self.level = level
        self.t0 = time.time()
        self.states = 0
        self.transitions = 0
        self.tlc_runs = []          # (what, module, generated, distinct, wall)
        self.evaluations = 0        # real executions
        self.validated = 0          # observations judged by the trace spec
        self.nontrivial = set()
        self.samples = []
        self.violations = []        # dict(id, clause, replay)
        self.known_seen = []        # KNOWN-FINDING lines
        self.drift = []             # model/code disagreements that keep the property
        self.notes = []
        self.assumptions = []
        self.exhaustive = None
        self.extra = {}
        self.rule = ''
        self.rng = random.Random(seed)
        # VERIF_SCRATCH: development runs against a scratch copy of the repository write their files elsewhere
        self.base = os.environ.get('VERIF_SCRATCH') or VERIF
        self.outdir = os.path.join(self.base, 'out', prop)
        if not os.environ.get('VERIF_REPLAY'):      # a replay must not delete the file it replays
            shutil.rmtree(self.outdir, ignore_errors=True)
        os.makedirs(self.outdir, exist_ok=True)

    # ------------------------------------------------------------------ TLC
    def tlc(self, what, module, cfg, allow_violation=False, **kw):
        r = tlc.run(module, cfg, seed=kw.pop('seed', None), **kw)
        tlc.check_ok(r, what, allow_violation=allow_violation)
        self.states += r.distinct or r.generated
        self.transitions += r.generated
        self.tlc_runs.append({'what': what, 'module': module, 'generated': r.generated,
                              'distinct': r.distinct, 'depth': r.depth, 'wall_s': round(r.wall, 1)})
        return r

    # -------------------------------------------------------- implementation
    def drive(self, cases, fn, chunksize=64):
        """run fn(case) for every case in worker processes (fresh fork pool)"""
        if not cases:
            return []
        ctx = multiprocessing.get_context('fork')
        # the parent may hold millions of cases: keep the garbage collector of the workers away from the inherited heap
        # (every traversal would copy its pages and make the first cases of a worker take seconds)
        gc.collect()
        gc.freeze()
        with ctx.Pool(NCPU, maxtasksperchild=2000) as pool:
            recs = pool.map(fn, cases, chunksize=chunksize)
        self.evaluations += len(recs)
        # a run that did not return is repeated once on the then quiet machine: the code under test is deterministic, a failure
        # that does not repeat came from the environment (memory pressure turns into MemoryError, which a bare `except:` of
        # the package loader turns into exit status 1); systematic failures (more than 60) are not repeated
        bad = [i for i, r in enumerate(recs) if isinstance(r, dict) and r.get('outcome') not in (None, 'returned')]
        if 0 < len(bad) <= 60:
            with ctx.Pool(min(NCPU, 4), maxtasksperchild=50) as pool:
                again = pool.map(fn, [cases[i] for i in bad], chunksize=1)
            for i, r in zip(bad, again):
                if isinstance(r, dict) and r.get('outcome') == 'returned':
                    self.notes.append('case %s: %s at the first attempt, returned when repeated' % (recs[i].get('id'), recs[i].get('outcome')))
                    recs[i] = r
            self.evaluations += len(again)
        return recs

    # ------------------------------------------------------- trace validation
    def validate(self, what, module, records, shard=None, env=None, timeout=900, project=None, spec='Spec', invariants=(), constants=None):
        """Feed observation records to the trace spec `module`; returns {id: verdict dict}.
        Every record must get exactly one verdict."""
        if not records:
            return {}
        n = len(records)
        if shard is None:
            shard = max(200, (n + NCPU - 1) // NCPU)
        nsh = (n + shard - 1) // shard
        shards = [records[k::nsh] for k in range(nsh)]      # interleaved: balances expensive records
        scratch = tempfile.mkdtemp(prefix='yv_obs_')
        verdicts = {}
        try:
            def one(k):
                path = os.path.join(scratch, 'shard%d.ndjson' % k)
                with open(path, 'w') as f:
                    for rec in shards[k]:
                        f.write(json.dumps(project(rec) if project else rec) + '\n')
                e = {'TRACE_FILE': path}
                if env:
                    e.update(env)
                cfg = tlc.cfg_text(spec=spec, invariants=list(invariants), constants=constants, deadlock=False)
                r = tlc.run(module, cfg, workers=1, env=e, timeout=timeout, heap='3g')
                tlc.check_ok(r, what + ' (trace shard %d)' % k)
                return r
            with concurrent.futures.ThreadPoolExecutor(NCPU) as ex:
                results = list(ex.map(one, range(len(shards))))
            for r in results:
                self.states += r.distinct or r.generated
                self.transitions += r.generated
                for v in r.json('@V'):
                    verdicts[v['id']] = v
            self.tlc_runs.append({'what': what + ' (trace validation, %d shards)' % len(shards), 'module': module,
                                  'generated': sum(r.generated for r in results),
                                  'distinct': sum(r.distinct for r in results),
                                  'wall_s': round(max(r.wall for r in results), 1)})
        finally:
            shutil.rmtree(scratch, ignore_errors=True)
        missing = [rec['id'] for rec in records if rec['id'] not in verdicts]
        if missing:
            raise Machinery('%s: %d records without verdict (first id %r)' % (what, len(missing), missing[0]))
        unbound = [v for v in verdicts.values() if v.get('bind', 'ok') != 'ok']
        if unbound:
            raise Machinery('%s: trace spec could not bind %d records: %r' % (what, len(unbound), unbound[0]))
        self.validated += len(records)
        return verdicts

    # ---------------------------------------------------------------- results
    def violation(self, rec, clause, extra=None):
        """register a rejected real observation; writes the replay file"""
        path = os.path.join(self.outdir, 'replay_%s.json' % _safe(rec.get('id')))
        with open(path, 'w') as f:
            json.dump({'property': self.prop, 'clause': clause, 'case': rec, 'extra': extra}, f, indent=1, default=str)
        self.violations.append({'id': rec.get('id'), 'clause': clause, 'replay': path})

    def sample(self, obj, limit=6):
        if len(self.samples) < limit:
            self.samples.append(obj)

    def finish(self):
        wall = time.time() - self.t0
        cov = {
            'states': max(self.states, 0),
            'transitions': max(self.transitions, 0),
            'traces_validated_against_impl': self.validated,
            'evaluations': self.evaluations,
            'distinct_nontrivial': len(self.nontrivial),
            'rule': self.rule,
            'samples': self.samples[:8] or ['(no case explored)'],
            'tlc_runs': self.tlc_runs,
            'drift': self.drift[:200],
            'drift_count': len(self.drift),
            'known_findings_seen': self.known_seen,
            'notes': self.notes,
        }
        if self.exhaustive is not None:
            cov['exhaustive'] = bool(self.exhaustive)
        cov.update(self.extra)
        ev = {'property_id': self.prop, 'tier': self.tier, 'seed': self.seed, 'level': self.level,
              'coverage': cov, 'assumptions': self.assumptions, 'wall_s': round(wall, 1),
              'violations': len(self.violations)}
        os.makedirs(os.path.join(self.base, 'evidence'), exist_ok=True)
        with open(os.path.join(self.base, 'evidence', self.prop + '.json'), 'w') as f:
            json.dump(ev, f, indent=1, default=str)
        for k in self.known_seen:
            print('KNOWN-FINDING: property=%s %s' % (self.prop, k))
        for d in self.drift[:5]:
            print('DRIFT property=%s %s' % (self.prop, json.dumps(d, default=str)[:300]))
        if self.violations:
            seen = set()
            for v in self.violations:
                if v['clause'] in seen and len(seen) > 20:
                    continue
                seen.add(v['clause'])
            for v in self.violations[:25]:
                print('VIOLATION property=%s replay=%s clause=%s' % (self.prop, v['replay'], v['clause']))
            print('%s %s: %d violation(s); %d real executions, %d observations validated by TLC, %.0fs'
                  % (self.prop, self.tier, len(self.violations), self.evaluations, self.validated, wall))
            return 1
        print('%s %s: ok; %d TLC states, %d real executions, %d observations validated by TLC, %d known finding(s), %d drift, %.0fs'
              % (self.prop, self.tier, self.states, self.evaluations, self.validated, len(self.known_seen), len(self.drift), wall))
        return 0


def _safe(x):
    s = str(x)
    if len(s) > 40 or not s.replace('-', '').replace('_', '').isalnum():
        return hashlib.sha1(s.encode()).hexdigest()[:12]
    return s


def main_wrapper(fn):
    """run a check function; map exceptions to exit 2"""
    try:
        return fn()
    except (Machinery, tlc.TlcError) as e:
        print('MACHINERY-FAILURE %s' % e, file=sys.stderr)
        return 2
    except Exception:
        traceback.print_exc()
        print('MACHINERY-FAILURE unexpected exception', file=sys.stderr)
        return 2
