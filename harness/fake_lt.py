#!/venv/bin/python
"""Fake proofreader used behind `python -m yalafi.shell --lt-command ...`.
Reads the text from stdin, logs argv and the text (one JSON line per invocation, file named by YV_LT_LOG),
and answers either
  - with the raw bytes of the file named by YV_LT_ANSWER (C15: arbitrary answers), or
  - by flagging every maximal run of the letter given in YV_LT_FLAG (default 'b') as one match (C14)."""
import json
import os
import re
import sys

txt = open(sys.stdin.fileno(), encoding='utf-8').read()
log = os.environ.get('YV_LT_LOG')
if log:
    with open(log, 'a') as f:
        f.write(json.dumps({'argv': sys.argv[1:], 'stdin': txt}) + '\n')
ans = os.environ.get('YV_LT_ANSWER')
if ans:
    sys.stdout.buffer.write(open(ans, 'rb').read())
    sys.exit(0)
flag = os.environ.get('YV_LT_FLAG', 'b')
ms = []
for m in re.finditer(re.escape(flag) + '+', txt):
    o = m.start()
    n = len(m.group(0))
    b = max(0, o - 20)
    ms.append({'message': 'flag <' + m.group(0) + '> & "co"', 'offset': o, 'length': n,
               'replacements': [{'value': 'r<&>"'}, {'value': 'x'}],
               'context': {'text': txt[b:o + n + 20].replace('\n', ' '), 'offset': o - b, 'length': n},
               'rule': {'id': 'R1', 'category': {'name': 'Cat'}}})
sys.stdout.write(json.dumps({'matches': ms}))
