"""Drivers: run the real YaLafi (from /repo's working tree) on one case and
return what the property's observation point shows.  Executed inside worker
processes (fork), one case at a time, under an alarm."""
import contextlib
import io
import os
import re
import signal
import sys
import traceback

REPO = os.environ.get('YALAFI_REPO', '/repo')
if REPO not in sys.path:
    sys.path.insert(0, REPO)

from . import chars  # noqa: E402

CASE_TIMEOUT = float(os.environ.get('VERIF_CASE_TIMEOUT', '5'))


class _Alarm(Exception):
    pass


def _on_alarm(*a):
    raise _Alarm()


def _arm():
    # the limit counts the CPU time of this process, so that a loaded machine does not turn slow cases into hangs
    # (a bare `except:` in the package loader would even turn the alarm into exit code 1); wall clock is only a backstop
    # user time only (ITIMER_VIRTUAL): a worker forked from a parent that holds millions of cases spends seconds of SYSTEM
    # time on copy-on-write faults, which is not time of the code under test
    signal.signal(signal.SIGVTALRM, _on_alarm)
    signal.signal(signal.SIGALRM, _on_alarm)
    signal.setitimer(signal.ITIMER_VIRTUAL, CASE_TIMEOUT)
    signal.setitimer(signal.ITIMER_REAL, CASE_TIMEOUT * 40)


def _disarm():
    signal.setitimer(signal.ITIMER_VIRTUAL, 0)
    signal.setitimer(signal.ITIMER_REAL, 0)


def call_tex2txt(src, opts=None, ml=False, thresh=None):
    """-> dict(outcome, plain/map or parts, stderr). outcome: returned | exception:<T>@file:line | exit:<code> | hang"""
    from yalafi import tex2txt
    opts = dict(opts or {})
    err = io.StringIO()
    out = {'outcome': 'returned', 'stderr': ''}
    _arm()
    try:
        with contextlib.redirect_stderr(err):
            o = tex2txt.Options(**opts)
            mod = None
            if thresh is not None:
                def mod(parms):
                    parms.ml_continue_thresh = thresh
            r = tex2txt.tex2txt(src, o, multi_language=ml, modify_parms=mod)
        _disarm()
        if ml:
            out['parts'] = [{'lang': lang, 'plain': chars.enc(p[0]), 'map': list(p[1])}
                            for lang in r for p in r[lang]]
        else:
            out['plain'] = chars.enc(r[0])
            out['map'] = list(r[1])
    except _Alarm:
        out['outcome'] = 'hang'
    except SystemExit as e:
        _disarm()
        out['outcome'] = 'exit:%s' % (e.code,)
    except RecursionError:
        _disarm()
        out['outcome'] = 'exception:RecursionError'
    except BaseException as e:  # noqa
        _disarm()
        tb = traceback.extract_tb(e.__traceback__)
        last = tb[-1] if tb else None
        where = '%s:%s' % (os.path.basename(last.filename), last.lineno) if last else '?'
        out['outcome'] = 'exception:%s@%s' % (type(e).__name__, where)
    finally:
        _disarm()
    out['stderr'] = err.getvalue()
    return out


def drive_filter(case):
    """case: dict(id, doc, src(list of symbolic chars), opts, ml) -> observation record"""
    src = chars.dec(case['src'])
    r = call_tex2txt(src, case.get('opts'), case.get('ml', False), case.get('thresh'))
    rec = {'id': case['id'], 'doc': case.get('doc', []), 'src': case['src'],
           'opts': case.get('opts') or {}, 'outcome': r['outcome'], 'stderr': r['stderr']}
    rec['diags'] = [[int(a), int(b)] for a, b in re.findall(r'\*\*\* LaTeX error: line (\d+), column (\d+):', r['stderr'])]
    rec['stderr'] = r['stderr'][-400:]
    if 'plain' in r:
        rec['plain'] = r['plain']
        rec['map'] = r['map']
    if 'parts' in r:
        rec['parts'] = r['parts']
    return rec
