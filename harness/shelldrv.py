"""Drivers for the proofreading shell: `python -m yalafi.shell` with the fake proofreader, in a scratch directory."""
import html.parser
import json
import os
import re
import shutil
import subprocess
import sys
import tempfile
import xml.etree.ElementTree as ET

from . import chars, drivers

FAKE = os.path.join(os.path.dirname(os.path.abspath(__file__)), 'fake_lt.py')
PY = sys.executable


def run_shell(files, args, answer=None, flag='b', main='t.tex', timeout=60, extra_files=None):
    """files: {name: text}; returns dict(exit, stdout, stderr, log=[{argv, stdin}])"""
    d = tempfile.mkdtemp(prefix='yv_sh_')
    try:
        for name, text in files.items():
            with open(os.path.join(d, name), 'w', encoding='utf-8', newline='') as f:
                f.write(text)
        env = dict(os.environ, PYTHONPATH=drivers.REPO, YV_LT_LOG=os.path.join(d, 'lt.log'), YV_LT_FLAG=flag)
        env.pop('YV_LT_ANSWER', None)
        if answer is not None:
            with open(os.path.join(d, 'answer.bin'), 'wb') as f:
                f.write(answer)
            env['YV_LT_ANSWER'] = os.path.join(d, 'answer.bin')
        cmd = [PY, '-m', 'yalafi.shell', '--no-config', '--lt-command', PY + ' ' + FAKE] + list(args)
        try:
            p = subprocess.run(cmd, cwd=d, env=env, stdout=subprocess.PIPE, stderr=subprocess.PIPE, timeout=timeout)
            out = {'exit': p.returncode, 'stdout': p.stdout.decode('utf-8', 'replace'), 'stderr': p.stderr.decode('utf-8', 'replace')}
        except subprocess.TimeoutExpired:
            out = {'exit': -9, 'stdout': '', 'stderr': 'TIMEOUT'}
        log = []
        lp = os.path.join(d, 'lt.log')
        if os.path.exists(lp):
            log = [json.loads(l) for l in open(lp)]
        out['log'] = log
        return out
    finally:
        shutil.rmtree(d, ignore_errors=True)


# ---------------------------------------------------------------- report parsers
def parse_plain(out):
    """text report -> list of dict(line, col, ctx_text, ctx_marks)"""
    res = []
    lines = out.split('\n')
    for i, l in enumerate(lines):
        m = re.match(r'^(\d+)\.\) Line (\d+), column (\d+), Rule ID: (.*)$', l)
        if m:
            ctx = lines[i + 3] if i + 3 < len(lines) else ''
            marks = lines[i + 4] if i + 4 < len(lines) else ''
            res.append({'nr': int(m.group(1)), 'line': int(m.group(2)), 'col': int(m.group(3)), 'ctx': ctx, 'marks': marks})
    return res


def parse_json(out):
    d = json.loads(out)
    return [{'offset': m.get('offset'), 'length': m.get('length'), 'priv': m.get('priv'), 'context': m.get('context')} for m in d['matches']]


def parse_xml(out):
    root = ET.fromstring(out)
    return [{k: e.get(k) for k in ('fromy', 'fromx', 'toy', 'tox', 'context', 'contextoffset', 'errorlength')} for e in root.findall('error')]


class _H(html.parser.HTMLParser):
    """collects the table rows of the report: per row the line number cell and the text cell with highlighted ranges"""
    VOID = {'br', 'meta'}

    def __init__(self):
        super().__init__(convert_charrefs=True)
        self.stack = []
        self.tags = set()
        self.errors = []
        self.tables = []      # list of rows: {'num': str, 'text': str, 'hl': [(start, end, title)]}
        self.row = None
        self.cell = -1
        self.open_hl = []
        self.in_td = False

    def handle_starttag(self, tag, attrs):
        self.tags.add(tag)
        if tag in self.VOID:
            if tag == 'br' and self.row is not None and self.cell == 1 and self.in_td:
                self.row['text'] += '\n'
            return
        self.stack.append(tag)
        a = dict(attrs)
        if tag == 'table':
            self.tables.append([])
        elif tag == 'tr' and self.tables:
            self.row = {'num': '', 'text': '', 'hl': [], 'attrs_extra': []}
            self.cell = -1
            self.tables[-1].append(self.row)
        elif tag == 'td' and self.row is not None:
            self.cell += 1
            self.in_td = True
        elif tag == 'span' and self.row is not None:
            extra = [k for k in a if k not in ('style', 'title')]
            if extra:
                self.errors.append('span with unexpected attributes %r' % extra)
            self.open_hl.append((len(self.row['text']), a.get('title', '')))

    def handle_endtag(self, tag):
        if tag in self.VOID:
            return
        if not self.stack or self.stack[-1] != tag:
            self.errors.append('bad nesting: </%s> with stack %r' % (tag, self.stack[-3:]))
            if tag in self.stack:
                while self.stack and self.stack[-1] != tag:
                    self.stack.pop()
            else:
                return
        self.stack.pop()
        if tag == 'span' and self.open_hl and self.row is not None:
            st, title = self.open_hl.pop()
            self.row['hl'].append((st, len(self.row['text']), title))
        elif tag == 'td':
            self.in_td = False
        elif tag == 'tr':
            self.row = None

    def handle_data(self, data):
        if not self.in_td or self.row is None:
            return
        if self.cell == 0:
            self.row['num'] += data
        elif self.cell == 1:
            # a line break of the source is <br> followed by a formatting newline: only the tag counts
            self.row['text'] += data.replace('\n', '')


def parse_html(out):
    h = _H()
    h.feed(out)
    h.close()
    if h.stack:
        h.errors.append('unclosed tags %r' % h.stack)
    return h
