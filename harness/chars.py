"""Character table shared with spec/Chars.tla: text <-> sequence of one-character
strings, awkward characters written symbolically."""

def enc_char(c):
    if c == '\n':
        return 'NL'
    if c == '\t':
        return 'TAB'
    if c == '\r':
        return 'CR'
    o = ord(c)
    if o < 32 or o > 126:
        return 'U+%04X' % o
    return c


def dec_char(s):
    if len(s) == 1:
        return s
    if s == 'NL':
        return '\n'
    if s == 'TAB':
        return '\t'
    if s == 'CR':
        return '\r'
    if s.startswith('U+'):
        return chr(int(s[2:], 16))
    raise ValueError('unknown symbolic character %r' % s)


def enc(text):
    return [enc_char(c) for c in text]


def dec(seq):
    return ''.join(dec_char(s) for s in seq)
