"""Known findings: genuine defects of YaLafi that are recorded, not repaired.
The file /verif/known_findings.json is committed and never written at run time.
An entry suppresses a violation only if property, clause pattern and the
structural signature of the failing case all match."""
import json
import os
import re

PATH = os.path.join(os.path.dirname(os.path.dirname(os.path.abspath(__file__))), 'known_findings.json')


def load(prop):
    if not os.path.exists(PATH):
        return []
    data = json.load(open(PATH))
    return [e for e in data.get('findings', []) if e.get('property') == prop and e.get('status', 'open') == 'open']


def match(entries, rec, clause, features=()):
    """-> description string of the matching finding, or None.
    signature keys: clause_re (regex on the failing clause), doc_re (regex on ' '.join(doc symbols)),
    src_re (regex on the concrete source text),
    features (structural features of the document computed by the specification, spec/Doc.tla), opts (subset of option values)"""
    from . import chars
    doc = ' '.join(rec.get('doc') or [])
    src = chars.dec(rec['src']) if isinstance(rec.get('src'), list) else (rec.get('src') or '')
    for e in entries:
        sig = e.get('signature', {})
        if 'clause_re' in sig and not re.search(sig['clause_re'], clause):
            continue
        if 'doc_re' in sig and not re.search(sig['doc_re'], doc):
            continue
        if 'src_re' in sig and not re.search(sig['src_re'], src, re.S):
            continue
        if 'features' in sig and not set(sig['features']) <= set(features or ()):
            continue
        if 'opts' in sig and any((rec.get('opts') or {}).get(k) != v for k, v in sig['opts'].items()):
            continue
        return e['id'] + ': ' + e['what']
    return None
