------------------------------ MODULE Special ------------------------------
(* C06: plain prose is a fixed point; the documented special sequences are   *)
(* replaced by longest match exactly as tabulated (README, "Filter actions", *)
(* and the statement of C06); every other character is copied unchanged.     *)
(* RefRewrite is the declarative reference: at each offset the longest key   *)
(* of the table that matches, else the character itself; the position of an  *)
(* output character is the offset of the first character it stems from.      *)
EXTENDS Chars, Naturals, Sequences, FiniteSets, TLC

\* key (sequence of characters) -> replacement (sequence of characters)
Table == {
  << <<"-","-","-">>, <<EMDASH>> >>, << <<"-","-">>, <<ENDASH>> >>,
  << <<"`","`">>, <<LDQ>> >>, << <<"'","'">>, <<RDQ>> >>,
  << <<"~">>, <<NBSP>> >>, << <<BS,",">>, <<NNBSP>> >>,
  << <<BS,"%">>, <<"%">> >>, << <<BS,"&">>, <<"&">> >>, << <<BS,"$">>, <<"$">> >>,
  << <<BS,"#">>, <<"#">> >>, << <<BS,"_">>, <<"_">> >>, << <<BS,"{">>, <<"{">> >>, << <<BS,"}">>, <<"}">> >>,
  << <<BS,BS>>, <<" ">> >>, << <<"&">>, <<" ">> >> }

MatchAt(s, i, key) == i + Len(key) - 1 <= Len(s) /\ \A k \in 1..Len(key) : s[i+k-1] = key[k]
Cands(s, i) == {e \in Table : MatchAt(s, i, e[1])}
Longest(C) == CHOOSE e \in C : \A f \in C : Len(f[1]) <= Len(e[1])

\* the characters that are "LaTeX-active" although not in the table: outside the claim of C06
Active == {BS, "{", "}", "$", "%", "#", "^", "_", "[", "]", "\""}

RECURSIVE Rew(_, _)
Rew(s, i) ==      \* -> sequence of <<char, position>>
  IF i > Len(s) THEN <<>>
  ELSE LET C == Cands(s, i) IN
       IF C = {} THEN <<<<s[i], i>>>> \o Rew(s, i+1)
       ELSE LET e == Longest(C) IN [k \in 1..Len(e[2]) |-> <<e[2][k], i>>] \o Rew(s, i + Len(e[1]))
RefPlain(s) == LET r == Rew(s, 1) IN [k \in 1..Len(r) |-> r[k][1]]
RefMap(s) == LET r == Rew(s, 1) IN [k \in 1..Len(r) |-> r[k][2]]

\* outside the claim: a character the table does not cover but LaTeX treats specially,
\* or a special sequence on an otherwise blank line (that case belongs to C05)
RECURSIVE Lines(_, _, _)
Lines(s, i, cur) == IF i > Len(s) THEN <<cur>>
                    ELSE IF s[i] = NL THEN <<cur>> \o Lines(s, i+1, <<>>) ELSE Lines(s, i+1, Append(cur, s[i]))
HasSpecial(l) == \E i \in 1..Len(l) : Cands(l, i) # {}
RiskyLine(l) == HasSpecial(l) /\ AllSpace(RefPlain(l))
RECURSIVE Uncovered(_, _)
Uncovered(s, i) ==       \* an active character that is not part of a matched table key
  IF i > Len(s) THEN FALSE
  ELSE LET C == Cands(s, i) IN
       IF C # {} THEN Uncovered(s, i + Len(Longest(C)[1]))
       ELSE s[i] \in Active \/ Uncovered(s, i+1)
Excluded(s) == Uncovered(s, 1) \/ LET ls == Lines(s, 1, <<>>) IN \E k \in 1..Len(ls) : RiskyLine(ls[k])

C06(src, plain, map) ==
  IF Excluded(src) THEN "excluded"
  ELSE LET r == Rew(src, 1) IN
       IF plain # [k \in 1..Len(r) |-> r[k][1]] THEN "text-differs-from-table-rewriting"
       ELSE IF map # [k \in 1..Len(r) |-> r[k][2]] THEN "positions-differ-from-offset-of-replaced-sequence"
       ELSE "ok"
=============================================================================
