------------------------------- MODULE ObsAns -------------------------------
(* C15: trace validation of real shell runs on mutated proofreader answers.   *)
(* Record: {id, mode, exit, traceback, owndiag, nlines, linelen (per line),   *)
(*          textlen, locs: [{o, n, fromy, fromx, toy, tox, line, col}] (-1 = not given by the mode), predicted}  *)
EXTENDS Naturals, Integers, Sequences, FiniteSets, TLC, Json, IOUtils
Recs == ndJsonDeserialize(IOEnv.TRACE_FILE)
VARIABLE cur
Init == cur = 1
Min(S) == CHOOSE x \in S : \A y \in S : x <= y
LineLen(r, y) == IF y >= 0 /\ y < r.nlines THEN r.linelen[y + 1] ELSE -1
InFile(r, e) ==
  \* both ends of the reported span inside the file
  /\ (e.o # -1 => e.o >= 0 /\ e.o < r.textlen /\ e.o + e.n >= 0 /\ e.o + e.n <= r.textlen)
  /\ (e.fromy # -1 => e.fromy >= 0 /\ e.fromy < r.nlines /\ e.fromx >= 0 /\ e.fromx <= LineLen(r, e.fromy) * 4
                      /\ e.toy >= 0 /\ e.toy < r.nlines /\ e.tox >= 0 /\ e.tox <= (LineLen(r, e.toy) + 1) * 4)
  /\ (e.line # -1 => e.line >= 1 /\ e.line <= r.nlines /\ (e.col # -1 => e.col >= 1 /\ e.col <= LineLen(r, e.line - 1) + 1))
C15(r) ==
  IF r.traceback THEN "unhandled-exception"
  ELSE IF r.exit = 0 THEN
       (IF \E k \in 1..Len(r.locs) : ~InFile(r, r.locs[k]) THEN "location-outside-the-file@" \o ToString(Min({k \in 1..Len(r.locs) : ~InFile(r, r.locs[k])}))
        ELSE "ok")
  ELSE IF r.exit = 1 /\ r.owndiag THEN "ok"
  ELSE "exit-status-" \o ToString(r.exit) \o "-without-the-shell's-diagnostic"
Class(r) == IF r.traceback THEN "traceback" ELSE IF r.exit = 0 THEN "report" ELSE "fatal"
Next == cur <= Len(Recs) /\ cur' = cur + 1
        /\ LET r == Recs[cur] IN PrintT("@V" \o ToJson([id |-> r.id, bind |-> "ok", c15 |-> C15(r),
                 drift |-> IF r.predicted = "none" \/ r.predicted = Class(r) THEN "none" ELSE "model-predicts-" \o r.predicted \o "-shell-gives-" \o Class(r)]))
Spec == Init /\ [][Next]_cur
=============================================================================
