------------------------------ MODULE GenRepl ------------------------------
(* all texts of at most MaxLen characters over Alpha, with each of the       *)
(* position-list patterns, for each rule list of the catalogue (incl. right-  *)
(* hand sides with backslashes, which are literal text); invariants   *)
(* check that the specified replacement itself has the properties of C13.    *)
EXTENDS Replace, Json
CONSTANTS MaxLen, NAlpha
Alpha == SubSeq(<<"a", "b", " ", NL, ".", "c", TAB, "(" >>, 1, NAlpha)
A(s) == s   \* readability
RuleLists == <<
  << <<"a"," ","&"," ","b">> >>,
  << <<"a"," ","b"," ","&"," ","c">> >>,
  << <<"a"," ","b"," ","&">> >>,
  << <<"a"," ","&"," ","b"," ","c"," "," ","a">> >>,
  << <<"."," ","&"," ","!">> >>,
  << <<"a","."," ","&"," ","x">> >>,
  << <<"#"," ","a"," ","&"," ","b">>, <<" "," ","&"," ","x">>, <<"b"," ","&"," ","a","#","&">> >>,
  << <<"a"," ","&"," ","b">>, <<"b"," ","b"," ","&"," ","a">> >>,
  << <<"b"," ","a"," ","&"," ","a"," ","b">>, <<"a"," ","&">> >>,
  << <<"("," ","&"," ","[">>, <<"a","("," ","&"," ","x">> >>,
  << <<"a","b"," ","&"," ","a">> >>,
  << <<"a"," ","a"," ","&"," ","a">> >>,
  << <<"a"," ","&"," ",BS,"1">> >>,
  << <<"b"," ","&"," ","a",BS,BS,"b">>, <<"a"," ","&"," ",BS,"e","u","r","o">> >> >>
Pattern(p, n) == [i \in 1..n |-> CASE p = 1 -> i [] p = 2 -> n + 1 - i [] p = 3 -> 7 [] p = 4 -> ((i * 3) % 5) + 1]
VARIABLES txt, pat, rl, phase
vars == <<txt, pat, rl, phase>>
Init == txt = <<>> /\ pat = 0 /\ rl = 0 /\ phase = "gen"
Add(k) == phase = "gen" /\ Len(txt) < MaxLen /\ txt' = Append(txt, Alpha[k]) /\ UNCHANGED <<pat, rl, phase>>
Choose(p, r) == phase = "gen" /\ txt # <<>> /\ pat' = p /\ rl' = r /\ phase' = "done" /\ txt' = txt
Next == (\E k \in 1..Len(Alpha) : Add(k)) \/ (\E p \in 1..4, r \in 1..Len(RuleLists) : Choose(p, r))
Spec == Init /\ [][Next]_vars
Out == ApplyAll(txt, Pattern(pat, Len(txt)), RuleLists[rl])
\* properties of the specified replacement (the model satisfies the statement)
LenEq == phase = "done" => Len(Out.txt) = Len(Out.pos)
PosFromInput == phase = "done" => \A i \in 1..Len(Out.pos) : \E j \in 1..Len(txt) : Out.pos[i] = Pattern(pat, Len(txt))[j]
NoMatchNoChange == phase = "done" /\ Len(RuleLists[rl]) = 1 /\ ParseRule(RuleLists[rl][1]).ok
      /\ (\A i \in 1..Len(txt) : MatchEnd(txt, i, ParseRule(RuleLists[rl][1]).lhs) = 0)
      => Out.txt = txt /\ Out.pos = Pattern(pat, Len(txt))
NeverAcrossBlankLine == phase = "done" /\ Len(RuleLists[rl]) = 1 /\ ParseRule(RuleLists[rl][1]).ok =>
      \A i \in 1..Len(txt) : LET e == MatchEnd(txt, i, ParseRule(RuleLists[rl][1]).lhs) IN
          e # 0 => ~HasBlankLine(SubSeq(txt, i, e-1), 1, FALSE)
Dump == phase = "done" => PrintT("@@" \o ToJson([txt |-> txt, pos |-> Pattern(pat, Len(txt)), lines |-> RuleLists[rl]]))
=============================================================================
