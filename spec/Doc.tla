-------------------------------- MODULE Doc --------------------------------
(* LEVEL A, part 1: the document catalogue and its REFERENCE MEANING.        *)
(*                                                                           *)
(* A document is a sequence of symbols of the catalogue below.  Conc(s) is   *)
(* the LaTeX text of a symbol; Step(st, s) is the reference semantics of one *)
(* symbol: it appends the text to st.src and records, in st.flows, what a    *)
(* reader of the typeset document would see ("items").  The meaning is taken *)
(* from the README sections "Filter actions", "Handling of displayed         *)
(* equations", "Multi-language documents" and from the property statements,  *)
(* never from reading the parser.  Final(st) flattens the flows into the     *)
(* expectation that module Align compares with an observation.               *)
(*                                                                           *)
(* Items (uniform records [t, ch, lo, hi, n]):                                *)
(*   "c"  a character copied from the body (or a replaced special sequence): *)
(*        ch at exactly position lo (1-based)                                *)
(*   "f"  a generated character whose text is known (heading dot, item       *)
(*        label, body text of a user macro ...): ch, position in [lo,hi]     *)
(*   "g"  a slot of generated text that is only constrained by its class     *)
(*        ch (e.g. "phi" = inline placeholder + punctuation, "ws" = white    *)
(*        space only, "cite", "ref"), positions in [lo,hi]; n = 1 if the     *)
(*        slot must produce at least one non-space character                 *)
(*   raw layout entries "ws" (n = number of line breaks), "cm" (comment),    *)
(*        "cw" (end of a control word: following blanks do not count),       *)
(*        "v" (other vanishing markup), "pb" (paragraph break, forced),      *)
(*        "x" (opaque: no claim about the separator here)                    *)
(*   Final turns the layout entries into "s" items (ch = separator class).   *)
EXTENDS Maths

It(t, ch, lo, hi, n) == [t |-> t, ch |-> ch, lo |-> lo, hi |-> hi, n |-> n, lg |-> ""]    \* lg: language in force (set by Emit)
Lay(t) == It(t, "", 0, 0, 0)

Str(s) == s   \* documentation only: a TLA+ tuple of one-character strings

(***************************************************************************)
(* The catalogue.  kind: how Step treats the symbol.                       *)
(***************************************************************************)
Visible == {"a", "b", "c", ".", "!", ",", "U+00E4"}          \* body text (U+00E4: a non-ASCII letter)
\* hidden vocabulary (must never reach the output): j (comments, skipped
\* text), k (keys, labels, file names), z (option lists), y and x (maths source);
\* none of these letters occurs in text the filter generates (operator words, proof titles)

Conc(s) ==
  CASE s \in Visible -> <<s>>
    [] s = "sp"   -> <<" ">>
    [] s = "nl"   -> <<NL>>
    [] s = "tab"  -> <<TAB>>
    [] s = "cm"   -> <<"%", "j", NL>>
    [] s = "lb"   -> <<BS,"l","a","b","e","l","{","k","}">>
    [] s = "ix"   -> <<BS,"i","n","d","e","x","{","k","}">>
    [] s = "fnm"  -> <<BS,"f","o","o","t","n","o","t","e","m","a","r","k">>   \* trailing optional argument absent: README documents that the space behind is consumed
    [] s = "uk"   -> <<BS,"f","o","o">>
    [] s = "uk2"  -> <<BS,"b","a","r">>
    [] s = "hsu"  -> <<BS,"h","s","p","a","c","e","{",BS,"f","o","o","}">>       \* an undeclared macro in an argument that is only inspected
    [] s = "phu"  -> <<BS,"p","h","a","n","t","o","m","{",BS,"b","a","r","}">>
    [] s = "ob"   -> <<"{">>
    [] s = "cb"   -> <<"}">>
    [] s = "add"  -> <<BS,"L","T","a","d","d","{">>               \* \LTadd{ : argument is kept
    [] s = "fbx"  -> <<BS,"f","r","a","m","e","b","o","x","[","z","]","{">>  \* \framebox[z]{ : #3... kept
    [] s = "tc"   -> <<BS,"t","e","x","t","c","o","l","o","r","{","k","}","{">>  \* xcolor
    [] s = "skp"  -> <<BS,"L","T","s","k","i","p","{","j","}">>   \* \LTskip{j}
    [] s = "fn"   -> <<BS,"f","o","o","t","n","o","t","e","{">>
    [] s = "cap"  -> <<BS,"c","a","p","t","i","o","n","{">>
    [] s = "sec"  -> <<BS,"s","e","c","t","i","o","n","{">>
    [] s = "sub"  -> <<BS,"s","u","b","s","e","c","t","i","o","n","*","{">>
    [] s = "par"  -> <<BS,"p","a","r">>
    [] s = "im"   -> <<"$","y","$">>
    [] s = "imp"  -> <<"$","y",".","$">>
    [] s = "ref"  -> <<BS,"r","e","f","{","k","}">>
    [] s = "cite" -> <<BS,"c","i","t","e","{","k","}">>
    [] s = "tie"  -> <<"~">>
    [] s = "nd"   -> <<"-","-">>
    [] s = "md"   -> <<"-","-","-">>
    [] s = "lq"   -> <<"`","`">>
    [] s = "rq"   -> <<"'","'">>
    [] s = "thin" -> <<BS,",">>
    [] s = "pct"  -> <<BS,"%">>
    [] s = "amp"  -> <<BS,"&">>
    [] s = "dol"  -> <<BS,"$">>
    [] s = "hsh"  -> <<BS,"#">>
    [] s = "usc"  -> <<BS,"_">>
    [] s = "lbr"  -> <<BS,"{">>
    [] s = "rbr"  -> <<BS,"}">>
    [] s = "skb"  -> <<"%","%","%"," ","L","T","-","S","K","I","P","-","B","E","G","I","N",NL>>
    [] s = "ske"  -> <<"%","%","%"," ","L","T","-","S","K","I","P","-","E","N","D",NL>>
    [] s = "fnq"  -> <<BS,"f","o","o","t","n","o","t","e","{","j","}">>   \* a footnote inside removed / skipped material
    [] s = "q"    -> <<"j">>                                        \* hidden letter (inside skipped regions)
    [] s = "bi"   -> <<BS,"b","e","g","i","n","{","i","t","e","m","i","z","e","}">>
    [] s = "ei"   -> <<BS,"e","n","d","{","i","t","e","m","i","z","e","}">>
    [] s = "be"   -> <<BS,"b","e","g","i","n","{","e","n","u","m","e","r","a","t","e","}">>
    [] s = "ee"   -> <<BS,"e","n","d","{","e","n","u","m","e","r","a","t","e","}">>
    [] s = "it"   -> <<BS,"i","t","e","m">>
    [] s = "bu"   -> <<BS,"b","e","g","i","n","{","u","n","k","}">>   \* unknown environment
    [] s = "eu"   -> <<BS,"e","n","d","{","u","n","k","}">>
    [] s = "bl"   -> <<BS,"b","e","g","i","n","{","l","s","t","l","i","s","t","i","n","g","}">>  \* removed environment (listings)
    [] s = "el"   -> <<BS,"e","n","d","{","l","s","t","l","i","s","t","i","n","g","}">>
    [] s = "bm"   -> <<BS,"b","e","g","i","n","{","m","i","n","i","p","a","g","e","}","{","z","}">>  \* paragraph-forming
    [] s = "em"   -> <<BS,"e","n","d","{","m","i","n","i","p","a","g","e","}">>
    [] s = "vb"   -> <<BS,"v","e","r","b","|","a","%","|">>          \* \verb|a%|
    [] s = "vbd"  -> <<BS,"v","e","r","b","|","$","|">>              \* \verb|$| : verbatim text that reads like a delimiter
    [] s = "vbb"  -> <<BS,"v","e","r","b","|","{","|">>
    [] s = "vrb"  -> <<BS,"b","e","g","i","n","{","v","e","r","b","a","t","i","m","}",NL,"a","%",NL,BS,"e","n","d","{","v","e","r","b","a","t","i","m","}">>
    [] s = "vrb2" -> <<BS,"b","e","g","i","n"," ","{","v","e","r","b","a","t","i","m","}","a","%",BS,"e","n","d","{","v","e","r","b","a","t","i","m","}">>
    \* more of the catalogue (list-of-macros.md): item with label, proof, tabular, accent, horizontal space, phantom, optional arguments
    [] s = "itl"  -> <<BS,"i","t","e","m","[">>
    [] s = "ilc"  -> <<"]">>
    \* (the title is longer than \begin{thm}: its characters must still map into the span of \begin{thm})
    [] s = "ntm"  -> <<BS,"n","e","w","t","h","e","o","r","e","m","{","t","h","m","}","{","T","m","m","m","m","m","m","m","m","m","m","m","m","}">>
    [] s = "bth"  -> <<BS,"b","e","g","i","n","{","t","h","m","}">>
    [] s = "eth"  -> <<BS,"e","n","d","{","t","h","m","}">>
    [] s = "bp"   -> <<BS,"b","e","g","i","n","{","p","r","o","o","f","}">>
    [] s = "ep"   -> <<BS,"e","n","d","{","p","r","o","o","f","}">>
    [] s = "bt"   -> <<BS,"b","e","g","i","n","{","t","a","b","u","l","a","r","}","{","z","}">>
    [] s = "et"   -> <<BS,"e","n","d","{","t","a","b","u","l","a","r","}">>
    [] s = "tamp" -> <<"&">>
    [] s = "tbsl" -> <<BS,BS>>
    [] s = "acc"  -> <<BS,"\"","a">>
    [] s = "hsp"  -> <<BS,"h","s","p","a","c","e","{","1","e","m","}">>
    [] s = "hs0"  -> <<BS,"h","s","p","a","c","e","{","0","p","t","}">>
    [] s = "phn"  -> <<BS,"p","h","a","n","t","o","m","{","j","}">>
    [] s = "capo" -> <<BS,"c","a","p","t","i","o","n","[","z","]","{">>
    [] s = "seco" -> <<BS,"s","e","c","t","i","o","n","[","z","]","{">>
    [] s = "tbs"  -> <<BS,"t","e","x","t","b","a","c","k","s","l","a","s","h">>
    [] s = "fct"  -> <<BS,"f","o","o","t","c","i","t","e","{","k","}">>          \* biblatex: a citation in a footnote
    \* \LTalter{first}{second}: only the second argument is typeset; files read by \LTinput (created by the harness)
    [] s = "alt" -> <<BS,"L","T","a","l","t","e","r","{">>
    [] s = "acb" -> <<"}","{">>
    [] s = "gld" -> <<BS,"L","T","i","n","p","u","t","{","/","t","m","p","/","y","v","f","i","l","e","s","/","g",".","g","l","s","d","e","f","s","}">>   \* glossary database: entry ab with text abt
    [] s = "gls" -> <<BS,"g","l","s","{","a","b","}">>
    [] s = "glsC" -> <<BS,"G","l","s","{","a","b","}">>             \* first letter capitalised
    [] s = "glsU" -> <<BS,"G","L","S","{","a","b","}">>             \* all letters capitalised
    \* a glossary entry defined in the document: its description is typeset, first letter capitalised, full stop added
    [] s = "gle" -> <<BS,"n","e","w","g","l","o","s","s","a","r","y","e","n","t","r","y","{","k","}","{","n","a","m","e","=","k",",",
                      "d","e","s","c","r","i","p","t","i","o","n","=","a"," ","{","b","}"," ","c","}">>
    [] s = "ltE" -> <<BS,"L","T","i","n","p","u","t","{","/","t","m","p","/","y","v","f","i","l","e","s","/","e",".","t","e","x","}">>   \* an empty file
    [] s = "ltD" -> <<BS,"L","T","i","n","p","u","t","{","/","t","m","p","/","y","v","f","i","l","e","s","/","d",".","t","e","x","}">>   \* contains \newcommand{\ma}{mn}
    \* languages (C12)
    \* a language as class option: it is in force only through babel, whose own options come later and win
    [] s = "dclF" -> <<BS,"d","o","c","u","m","e","n","t","c","l","a","s","s","[","f","r","e","n","c","h","]","{","a","r","t","i","c","l","e","}">>
    [] s = "babD" -> <<BS,"u","s","e","p","a","c","k","a","g","e","[","e","n","g","l","i","s","h",",","g","e","r","m","a","n","]","{","b","a","b","e","l","}">>
    [] s = "selD" -> <<BS,"s","e","l","e","c","t","l","a","n","g","u","a","g","e","{","g","e","r","m","a","n","}">>
    [] s = "selE" -> <<BS,"s","e","l","e","c","t","l","a","n","g","u","a","g","e","{","e","n","g","l","i","s","h","}">>
    [] s = "selF" -> <<BS,"s","e","l","e","c","t","l","a","n","g","u","a","g","e","{","f","r","e","n","c","h","}">>
    [] s = "flD" -> <<BS,"f","o","r","e","i","g","n","l","a","n","g","u","a","g","e","{","g","e","r","m","a","n","}","{">>
    [] s = "flE" -> <<BS,"f","o","r","e","i","g","n","l","a","n","g","u","a","g","e","{","e","n","g","l","i","s","h","}","{">>
    [] s = "flF" -> <<BS,"f","o","r","e","i","g","n","l","a","n","g","u","a","g","e","{","f","r","e","n","c","h","}","{">>
    [] s = "olD" -> <<BS,"b","e","g","i","n","{","o","t","h","e","r","l","a","n","g","u","a","g","e","}","{","g","e","r","m","a","n","}">>
    [] s = "eol" -> <<BS,"e","n","d","{","o","t","h","e","r","l","a","n","g","u","a","g","e","}">>
    [] s = "olsF" -> <<BS,"b","e","g","i","n","{","o","t","h","e","r","l","a","n","g","u","a","g","e","*","}","{","f","r","e","n","c","h","}">>
    [] s = "eols" -> <<BS,"e","n","d","{","o","t","h","e","r","l","a","n","g","u","a","g","e","*","}">>
    \* extraction (C18): a listed macro that is otherwise unknown; comments containing macros
    [] s = "xo"  -> <<BS,"x","f","o","o","{">>
    [] s = "cmf" -> <<"%",BS,"f","o","o","t","n","o","t","e","{","j","}",NL>>
    [] s = "cmu" -> <<"%",BS,"f","o","o",NL>>
    \* injected faults (C08)
    [] s = "Fim"  -> <<"$","y",NL,NL>>
    [] s = "FimE" -> <<"$","y">>
    [] s = "Fdm"  -> <<BS,"[","y",NL,NL>>
    [] s = "FdmE" -> <<"$","$","y">>
    [] s = "FeqE" -> <<BS,"b","e","g","i","n","{","e","q","u","a","t","i","o","n","}","y">>
    [] s = "FargE" -> <<BS,"t","e","x","t","c","o","l","o","r","{","k","}","{","a">>
    [] s = "FoptE" -> <<BS,"c","i","t","e","[","a">>
    [] s = "FvbE" -> <<BS,"v","e","r","b","|","a">>
    [] s = "FveE" -> <<BS,"b","e","g","i","n","{","v","e","r","b","a","t","i","m","}","a">>
    [] s = "Fsk"  -> <<"%","%","%"," ","L","T","-","S","K","I","P","-","B","E","G","I","N",NL>>
    [] s = "Facc" -> <<BS,"'","1">>
    [] s = "FaccD" -> <<BS,"[","y",BS,"m","b","o","x","{",BS,"'","1","}",BS,"]">>      \* the same fault in a text part of a displayed equation
    [] s = "FaccI" -> <<"$","y",BS,"m","b","o","x","{",BS,"'","1","}","$">>
    [] s = "Flt"  -> <<BS,"L","T","i","n","p","u","t","{","n","o","f","i","l","e",".","t","e","x","}">>
    \* maths (C10, C11)
    [] s = "mo"  -> <<"$">> [] s = "mc" -> <<"$">> [] s = "mo2" -> <<BS,"(">> [] s = "mc2" -> <<BS,")">>
    [] s = "my"  -> <<"y">> [] s = "mw" -> <<"x">> [] s = "mpl" -> <<"+">> [] s = "meq" -> <<"=">>
    [] s = "muk" -> <<BS,"f","o","o">>          \* the undeclared macro of symbol uk, used in maths (not listed from there)
    [] s = "mal" -> <<BS,"a","l","p","h","a">> [] s = "mfr" -> <<BS,"f","r","a","c","{","y","}","{","x","}">>
    [] s = "msb" -> <<"_","{","x","}">> [] s = "msp" -> <<BS,",">> [] s = "mti" -> <<"~">>
    [] s = "mdt" -> <<".">> [] s = "mcm" -> <<",">> [] s = "mob" -> <<"{">> [] s = "mcb" -> <<"}">>
    [] s = "mtx" -> <<BS,"t","e","x","t","{"," ","f","o","r"," ","}">>
    [] s = "mlb" -> <<BS,"l","a","b","e","l","{","k","}">> [] s = "mnn" -> <<BS,"n","o","n","u","m","b","e","r">>
    [] s = "mam" -> <<"&">> [] s = "mnl" -> <<BS,BS>>
    [] s = "ba"  -> <<BS,"b","e","g","i","n","{","a","l","i","g","n","}">> [] s = "ea" -> <<BS,"e","n","d","{","a","l","i","g","n","}">>
    \* an equation environment with a mandatory argument (amsmath): the argument is not part of the equation
    [] s = "bat" -> <<BS,"b","e","g","i","n","{","a","l","i","g","n","a","t","*","}","{","2","}">> [] s = "eat" -> <<BS,"e","n","d","{","a","l","i","g","n","a","t","*","}">>
    [] s = "bq"  -> <<BS,"b","e","g","i","n","{","e","q","u","a","t","i","o","n","}">> [] s = "eq" -> <<BS,"e","n","d","{","e","q","u","a","t","i","o","n","}">>
    [] s = "bd"  -> <<BS,"[">> [] s = "ed" -> <<BS,"]">> [] s = "bdd" -> <<"$","$">> [] s = "edd" -> <<"$","$">>
    \* user definitions (C09) and their uses
    [] s = "dA"  -> <<BS,"n","e","w","c","o","m","m","a","n","d","{",BS,"m","a","}","{","m","n","}">>
    [] s = "dI"  -> <<BS,"n","e","w","c","o","m","m","a","n","d","{",BS,"m","i","}","{","$","y","$","}">>     \* a macro that stands for a formula
    [] s = "uI"  -> <<BS,"m","i">>
    [] s = "dB"  -> <<BS,"n","e","w","c","o","m","m","a","n","d","{",BS,"m","b","}","[","1","]","{","m","#","1","n","}">>
    [] s = "dC"  -> <<BS,"n","e","w","c","o","m","m","a","n","d","{",BS,"m","c","}","[","2","]","[","d","]","{","m","#","1","n","#","2","}">>
    [] s = "dD"  -> <<BS,"n","e","w","c","o","m","m","a","n","d","{",BS,"m","d","}","[","1","]","{","#","1","#","1","}">>
    [] s = "dE"  -> <<BS,"n","e","w","c","o","m","m","a","n","d","{",BS,"m","e","}","[","1","]","{","}">>
    [] s = "dF"  -> <<BS,"d","e","f",BS,"m","f","#","1","{","m","#","1","}">>
    [] s = "dG"  -> <<BS,"n","e","w","c","o","m","m","a","n","d","{",BS,"m","g","}","[","1","]","{",BS,"m","b","{","#","1","}","n","}">>
    [] s = "rB"  -> <<BS,"r","e","n","e","w","c","o","m","m","a","n","d","{",BS,"m","b","}","[","1","]","{","n","#","1","}">>
    [] s = "dH"  -> <<BS,"n","e","w","c","o","m","m","a","n","d","{",BS,"m","h","}","[","1","]","[","d","]","{","m","#","1","}">>
    [] s = "uH"  -> <<BS,"m","h">>
    [] s = "rA"  -> <<BS,"r","e","n","e","w","c","o","m","m","a","n","d","{",BS,"m","a","}","{","n","}">>
    [] s = "uA"  -> <<BS,"m","a">>
    [] s = "uB"  -> <<BS,"m","b","{">>
    [] s = "uBt" -> <<BS,"m","b"," ","b">>
    [] s = "uC"  -> <<BS,"m","c","{">>
    [] s = "uCo" -> <<BS,"m","c","[">>
    [] s = "ocb" -> <<"]","{">>
    [] s = "uD"  -> <<BS,"m","d","{">>
    [] s = "uE"  -> <<BS,"m","e","{">>
    [] s = "uF"  -> <<BS,"m","f","{">>
    [] s = "uG"  -> <<BS,"m","g","{">>
    \* citation with optional argument, \usepackage between text
    [] s = "cto" -> <<BS,"c","i","t","e","[">>
    [] s = "ctc" -> <<"]","{","k","}">>
    [] s = "rbk" -> <<"]">>
    [] s = "up"  -> <<BS,"u","s","e","p","a","c","k","a","g","e","{","g","r","a","p","h","i","c","x","}">>   \* a package that is not preloaded
    [] OTHER -> <<"?", "?">>

ReplChar(s) ==
  CASE s = "tie" -> NBSP [] s = "nd" -> ENDASH [] s = "md" -> EMDASH
    [] s = "lq" -> LDQ [] s = "rq" -> RDQ [] s = "thin" -> NNBSP
    [] s = "pct" -> "%" [] s = "amp" -> "&" [] s = "dol" -> "$" [] s = "hsh" -> "#"
    [] s = "usc" -> "_" [] s = "lbr" -> "{" [] s = "rbr" -> "}"
ReplSyms == {"tie","nd","md","lq","rq","thin","pct","amp","dol","hsh","usc","lbr","rbr"}

OpenKind(s) ==     \* symbols that open a braced argument / group
  CASE s = "itl" -> "ilab" [] s = "capo" -> "fn" [] s = "seco" -> "sec" [] s = "alt" -> "alt" [] s = "xo" -> "xo" [] s = "ob" -> "grp" [] s = "add" -> "arg" [] s = "fbx" -> "arg" [] s = "tc" -> "arg"
    [] s = "fn" -> "fn" [] s = "cap" -> "fn" [] s = "sec" -> "sec" [] s = "sub" -> "sec"
    [] s \in {"uB","uC","uD","uE","uF","uG"} -> "marg" [] s = "uCo" -> "mopt" [] s = "cto" -> "copt"
LangSel == {"babD", "selD", "selE", "selF"}
LangOpen == {"flD", "flE", "flF", "olD", "olsF"}
LangOf(s) == CASE s \in {"babD", "selD", "flD", "olD"} -> "de-DE" [] s \in {"selE", "flE"} -> "en-GB" [] s \in {"selF", "flF", "olsF"} -> "fr"
LangSyms == LangSel \cup LangOpen \cup {"eol", "eols"}
FaultSyms == {"Fim","FimE","Fdm","FdmE","FeqE","FargE","FoptE","FvbE","FveE","Fsk","Facc","FaccD","FaccI","Flt"}
EofFaults == {"FimE","FdmE","FeqE","FargE","FoptE","FvbE","FveE"}
\* offset of the problem relative to the start of the symbol
FaultOff(s) == CASE s = "FargE" -> 13 [] s = "FoptE" -> 5 [] s = "FaccD" -> 9 [] s = "FaccI" -> 8 [] OTHER -> 0
OpenSyms == {"itl", "capo", "seco", "alt", "xo","ob","add","fbx","tc","fn","cap","sec","sub","uB","uC","uCo","uD","uE","uF","uG","cto"}
MathOpen == {"mo", "mo2"}
DispOpen == {"ba", "bat", "bq", "bd", "bdd"}
MathBody == {"my","mw","mpl","meq","mal","muk","mfr","msb","msp","mti","mdt","mcm","mob","mcb"}
DispBody == MathBody \cup {"mtx","mlb","mnn","mam","mnl"}
CloserOf(o) == CASE o = "mo" -> "mc" [] o = "mo2" -> "mc2" [] o = "ba" -> "ea" [] o = "bat" -> "eat" [] o = "bq" -> "eq" [] o = "bd" -> "ed" [] o = "bdd" -> "edd"
MathSyms == MathOpen \cup DispOpen \cup DispBody \cup {"mc","mc2","ea","eat","eq","ed","edd"}
DefSyms == {"dA","dB","dC","dD","dE","dF","dG","rB","dH","rA","dI"}
UseSyms == {"uA","uB","uBt","uC","uCo","uD","uE","uF","uG","uH","uI"}
MacroOf(s) == CASE s \in {"dA","uA","rA"} -> "ma" [] s \in {"dB","rB","uB","uBt"} -> "mb" [] s \in {"dC","uC","uCo"} -> "mc"
                [] s \in {"dD","uD"} -> "md" [] s \in {"dE","uE"} -> "me" [] s \in {"dF","uF"} -> "mf" [] s \in {"dG","uG"} -> "mg" [] s \in {"dH","uH"} -> "mh" [] s \in {"dI","uI"} -> "mi"
MacroNames == {"ma","mb","mc","md","me","mf","mg","mh","mi"}
MacroChars(m) == <<BS, "m", CASE m = "ma" -> "a" [] m = "mb" -> "b" [] m = "mc" -> "c" [] m = "md" -> "d" [] m = "me" -> "e" [] m = "mf" -> "f" [] m = "mg" -> "g" [] m = "mh" -> "h" [] m = "mi" -> "i">>
\* body of a definition: elements <<"t", ch>> (text), <<"a", k>> (parameter), <<"c", macro, elements>> (nested call with one argument)
BodyOf(d) == CASE d = "dA" -> << <<"t","m">>, <<"t","n">> >>
               [] d = "dB" -> << <<"t","m">>, <<"a",1>>, <<"t","n">> >>
               [] d = "dC" -> << <<"t","m">>, <<"a",1>>, <<"t","n">>, <<"a",2>> >>
               [] d = "dD" -> << <<"a",1>>, <<"a",1>> >>
               [] d = "dE" -> << >>
               [] d = "dF" -> << <<"t","m">>, <<"a",1>> >>
               [] d = "dG" -> << <<"c","mb",<< <<"a",1>> >> >>, <<"t","n">> >>
               [] d = "rB" -> << <<"t","n">>, <<"a",1>> >>
               [] d = "dH" -> << <<"t","m">>, <<"a",1>> >>
               [] d = "dI" -> << >>
               [] d = "rA" -> << <<"t","n">> >>
BeginSyms == {"bi","be","bu","bl","bm","bp","bt","bth"}
EndSyms == {"ei","ee","eu","el","em","ep","et","eth"}
EnvOf(s) == CASE s \in {"bi","ei"} -> "itemize" [] s \in {"be","ee"} -> "enumerate"
              [] s \in {"bth","eth"} -> "thm" [] s \in {"bp","ep"} -> "proof" [] s \in {"bt","et"} -> "tabular"
              [] s \in {"bu","eu"} -> "unk" [] s \in {"bl","el"} -> "lstlisting" [] s \in {"bm","em"} -> "minipage"

AllSyms == Visible \cup ReplSyms \cup OpenSyms \cup BeginSyms \cup EndSyms \cup
   {"sp","nl","tab","cm","lb","ix","uk","uk2","cb","skp","par","im","imp","ref","cite","skb","ske","q","fnq","it","fnm","vb","vbd","vbb","vrb","vrb2","ocb","ctc","rbk","up","uA","uBt","uH","hsu","phu","cmf","cmu","acb","ltE","ltD","gld","gls","glsC","glsU","gle","dclF","ilc","tamp","tbsl","acc","hsp","hs0","phn","tbs","ntm","fct"} \cup DefSyms \cup MathSyms \cup FaultSyms \cup LangSyms

(***************************************************************************)
(* Reference state                                                         *)
(***************************************************************************)
Frame(k, flow, start) == [k |-> k, flow |-> flow, start |-> start, has |-> FALSE, last |-> "", cnt |-> 0,
                          nm |-> "", mark |-> 0, args |-> <<>>]

St0 == [src |-> <<>>, ctx |-> <<>>, flows |-> << <<>> >>, spans |-> << <<0,0>> >>,
        unk |-> <<>>, nfml |-> 0, cw |-> FALSE, vis |-> FALSE, feat |-> {},
        lstack |-> <<"MAIN">>, ins |-> <<>>, ls |-> "", mode |-> "normal", drop |-> {}, fault |-> <<>>, ended |-> FALSE, defs |-> [m \in MacroNames |-> "none"], fml |-> <<>>, eqs |-> <<>>, didx |-> 0]

Top(st) == st.ctx[Len(st.ctx)]
CurFlow(st) == IF st.ctx = <<>> THEN 1 ELSE Top(st).flow
InKind(st, k) == \E i \in 1..Len(st.ctx) : st.ctx[i].k = k
InSkip(st) == st.ctx # <<>> /\ Top(st).k \in {"skip", "rm"}
InMath(st) == st.ctx # <<>> /\ Top(st).k \in {"math", "deq"}
Pos0(st) == Len(st.src)          \* 0-based offset of the next character = 1-based position of the last one

CurLang(st) == st.lstack[Len(st.lstack)]
Emit(st, items) == [st EXCEPT !.flows[CurFlow(st)] = @ \o [i \in 1..Len(items) |-> [items[i] EXCEPT !.lg = CurLang(st)]]]
CwSyms == {"uk", "uk2", "par", "it", "fnm", "uA", "uH", "uI", "mal", "muk", "mnn", "tbs"}        \* symbols whose text ends with a control word
AddSrc(st, s) == [st EXCEPT !.src = @ \o Conc(s), !.cw = s \in CwSyms, !.vis = s \in Visible, !.ls = s]
Feat(st, f) == [st EXCEPT !.feat = @ \cup {f}]
\* text seen inside the innermost heading (for the dot rule) and in every enclosing frame
\* (text inside a footnote belongs to the footnote's flow, not to a heading around it)
NoteText(st, ch) ==
  LET fns == {i \in 1..Len(st.ctx) : st.ctx[i].k = "fn"}
      from == IF fns = {} THEN 1 ELSE CHOOSE i \in fns : \A j \in fns : j <= i IN
  [st EXCEPT !.ctx = [i \in 1..Len(st.ctx) |-> IF i >= from THEN [st.ctx[i] EXCEPT !.has = TRUE, !.last = ch] ELSE st.ctx[i]]]
AddUnk(st, name) == IF \E i \in 1..Len(st.unk) : st.unk[i] = name THEN st ELSE [st EXCEPT !.unk = Append(@, name)]

(***************************************************************************)
(* Well-formedness: which symbol may follow                                *)
(***************************************************************************)
\* the current row of a displayed equation contains something that is rendered
RowFilled(body) == LET rows == SplitAt(body, "mnl", <<>>) IN RendersText(rows[Len(rows)])
AllowedMath(st, s) ==
  LET fr == Top(st)
      body == fr.args
      last == IF body = <<>> THEN "" ELSE body[Len(body)].s
      closer == CloserOf(fr.nm) IN
  IF s = closer THEN fr.cnt = 0 /\ (fr.k = "math" => ~InlineShape(body).onlyspace) /\ (fr.k = "deq" => RowFilled(body))
  ELSE /\ s \in (IF fr.k = "math" THEN MathBody ELSE DispBody)
       /\ (s = "mcb" => fr.cnt > 0)
       /\ (s = "mob" => fr.cnt < 1 /\ last \notin {"msb"})
       /\ (fr.k = "math" /\ IsMPunct(last) => FALSE)            \* inline: punctuation only as the last character
       /\ (s \in {"mam", "mnl"} => fr.nm \in {"ba", "bat"} /\ fr.cnt = 0)
       /\ (s = "mnl" => RowFilled(body))            \* an empty row is a blank line for the line-removal pass (C05's matter)
       /\ (s = "mtx" => fr.cnt = 0)
AllowedCtx(st, s) ==
  IF InMath(st) THEN AllowedMath(st, s)
  ELSE IF InSkip(st) THEN

       ((Top(st).k = "skip" /\ s \in {"q","sp","nl","ske","uk","ob","cb","im","fnq"}) \/
        (Top(st).k = "rm" /\ s \in {"q","sp","nl","el","fnq"}))
  ELSE
  /\ s \notin {"ske","el","q","fnq"} \cup DispBody \cup {"mc","mc2","ea","eat","eq","ed","edd"}
  /\ s \in DispOpen => ~InKind(st, "sec") /\ ~InKind(st, "arg") /\ ~InKind(st, "fn") /\ ~InKind(st, "marg")
  /\ s \in MathOpen => ~InKind(st, "marg") /\ ~InKind(st, "copt") /\ ~InKind(st, "mopt")
  \* a tie or thin space on an otherwise blank line is white space for the line-removal pass
  \* (excluded from C02/C06, see the statement of C06): only directly after a visible character
  /\ s \in {"tie","thin"} => st.vis
  /\ s = "cb" => st.ctx # <<>> /\ Top(st).k \in {"grp","arg","fn","sec","marg","hid","lang"}
  \* LaTeX does not allow \verb in the argument of another macro; the delimiter-like variants are generated outside arguments only
  /\ s \in {"vbd","vbb"} => \A i \in 1..Len(st.ctx) : st.ctx[i].k \in {"grp","env","lenv"}
  \* (\\ directly before the end of a tabular leaves a blank line: C05's matter, and & or \\ alone on a line likewise)
  /\ s = "et" => st.ls \notin {"tbsl"}
  /\ s = "eol" => st.ctx # <<>> /\ Top(st).k = "lenv" /\ Top(st).nm = "olD"
  /\ s = "eols" => st.ctx # <<>> /\ Top(st).k = "lenv" /\ Top(st).nm = "olsF"
  \* \selectlanguage inside a footnote is local to the footnote in LaTeX; the statement does not say more: not generated
  /\ s = "dclF" => st.src = <<>>
  /\ s = "babD" => "babel-option" \notin st.feat          \* loading the package a second time has no effect
  /\ s \in LangSel => ~InKind(st, "fn") /\ ~InKind(st, "sec") /\ ~InKind(st, "arg") /\ (s = "babD" => st.ctx = <<>>)
  /\ s \in {"olD", "olsF"} => ~InKind(st, "sec") /\ ~InKind(st, "arg") /\ ~InKind(st, "fn") /\ ~InKind(st, "lang")
  /\ s \in {"flD", "flE", "flF"} => ~InKind(st, "sec")
  \* (the full stop added to a heading is attached to the last token of the heading; if that is the closing $ of a
  \*  formula it maps into the formula - legitimate, but it would blur C10's "text of the formula")
  /\ (s = "cb" /\ st.ctx # <<>> /\ Top(st).k = "sec") => st.ls \notin {"mc", "mc2", "im", "imp", "uI"}
  \* (a heading that ends in a thin space or a tie: whether that counts as its last character is not stated)
  /\ (s = "cb" /\ st.ctx # <<>> /\ Top(st).k = "sec") => st.ls \notin {"thin", "tie"} /\ Top(st).last \notin {NBSP, NNBSP}
  \* a formula in the argument of a user macro that drops or doubles its argument is typeset never or twice: the count of
  \* formulas (rotation, C10) is then that of the expansion, which the formula list of the reference does not follow
  /\ s \in {"im", "imp"} => ~\E i \in 1..Len(st.ctx) : st.ctx[i].k = "marg" /\ st.ctx[i].nm \in {"me", "md"}
  /\ s \in FaultSyms => st.ctx = <<>> /\ st.fault = <<>>
  /\ (st.fault # <<>> /\ st.fault[1].sym = "Fsk") => s \notin {"skb", "ske"}     \* a later END comment would close the region
  \* extraction mode (C18): listed macros are \footnote and \xfoo; they are not put into arguments of other known macros
  \* (which are skipped unexpanded), and their arguments hold plain material only
  /\ (st.mode = "extr" /\ s \in {"fn", "xo"}) => ~InKind(st, "arg") /\ ~InKind(st, "sec") /\ ~InKind(st, "hid")
  /\ (st.mode = "extr" /\ InKind(st, "fn")) => s \in Visible \cup {"sp","nl","ob","cb","uk","cm","im","imp","cmf","tie","nd"}
  /\ s = "xo" => ~InKind(st, "fn") /\ ~InKind(st, "sec")
  /\ s = "ntm" => st.ctx = <<>> /\ "thm-declared" \notin st.feat
  /\ s = "itl" => st.ctx # <<>> /\ Top(st).k = "env" /\ Top(st).last \in {"itemize", "enumerate"}
  /\ s = "ilc" => st.ctx # <<>> /\ Top(st).k = "ilab"
  /\ (st.ctx # <<>> /\ Top(st).k = "ilab") => s \in Visible \cup {"sp", "ilc"}
  /\ s \in {"tamp", "tbsl"} => st.ctx # <<>> /\ Top(st).k = "env" /\ Top(st).last = "tabular"
  /\ s \in {"capo"} => ~InKind(st, "fn")
  /\ s \in {"seco"} => ~InKind(st, "sec") /\ ~InKind(st, "arg") /\ st.mode # "extr"
  /\ s \in {"acc", "hsp", "hs0", "phn", "tbs"} => ~InKind(st, "sec")
  /\ s = "fct" => ~InKind(st, "fn") /\ ~InKind(st, "sec") /\ st.mode # "extr"
  /\ s = "acb" => st.ctx # <<>> /\ Top(st).k = "alt1"
  /\ s = "alt" => ~InKind(st, "sec") /\ ~InKind(st, "fn") /\ ~InKind(st, "arg") /\ ~InKind(st, "alt1") /\ ~InKind(st, "hid")
  /\ (st.ctx # <<>> /\ Top(st).k = "alt1") => s \in Visible \cup {"sp", "acb"}
  /\ s \in {"ltE", "ltD", "gld"} => st.ctx = <<>>
  /\ s \in {"hsu", "phu"} => ~InKind(st, "sec")
  /\ s \in {"gls", "glsC", "glsU"} => "glossary-loaded" \in st.feat /\ ~InKind(st, "sec")
  /\ s = "gle" => st.ctx = <<>>
  \* (reading the file again executes its definition again)
  /\ s = "ocb" => st.ctx # <<>> /\ Top(st).k = "mopt"
  /\ s = "ctc" => st.ctx # <<>> /\ Top(st).k = "copt"
  /\ s = "rbk" => Len(st.ctx) >= 2 /\ Top(st).k = "grp" /\ st.ctx[Len(st.ctx)-1].k \in {"copt", "mopt"}
  /\ s \in DefSyms \cup {"up"} => st.ctx = <<>>
  /\ s = "rB" => st.defs["mb"] # "none"
  /\ s = "uCo" => st.defs["mc"] # "none"
  /\ s = "rA" => st.defs["ma"] # "none"
  /\ s \in DefSyms \ {"rB", "rA"} => st.defs[MacroOf(s)] = "none"
  \* inside an optional argument: plain text and groups only
  /\ (st.ctx # <<>> /\ Top(st).k \in {"copt","mopt"}) => s \in Visible \cup {"sp","ob","ctc","ocb"}
  /\ (Len(st.ctx) >= 2 /\ Top(st).k = "grp" /\ st.ctx[Len(st.ctx)-1].k \in {"copt","mopt"}) => s \in Visible \cup {"sp","rbk","cb"}
  /\ s \in (UseSyms \ {"uI"}) \cup {"cto"} => ~InKind(st, "sec")
  /\ s \in EndSyms => st.ctx # <<>> /\ Top(st).k = "env" /\ Top(st).last = EnvOf(s)
  /\ s = "it" => st.ctx # <<>> /\ Top(st).k = "env" /\ Top(st).last \in {"itemize","enumerate"}
  /\ s \in {"fn","cap"} => ~InKind(st, "fn")            \* nested detached flows: order not documented
  \* (a detached flow inside the argument of a user macro is extracted as often as the body uses the argument;
  \*  the reference substitution does not duplicate flows: not generated)
  /\ s \in {"fn", "cap", "capo", "fct"} => ~InKind(st, "marg") /\ ~InKind(st, "mopt")
  /\ s \in {"skb"} => st.ctx = <<>>                        \* skip regions at top level only
  /\ s \in {"sec","sub"} => ~InKind(st, "sec")
  /\ s \in BeginSyms \cup {"par", "vrb", "vrb2"} => ~InKind(st, "sec") /\ ~InKind(st, "arg") /\ ~InKind(st, "fn")

Allowed(st, s) ==
  \* a letter directly after a control word would change the macro name
  /\ ~st.ended
  /\ (st.cw => ~IsMacroChar(Conc(s)[1]))
  \* adjacent symbols must not fuse into another token ($$, ---, ```, ''')
  /\ (st.src # <<>> => LET l == st.src[Len(st.src)] IN ~(l = Conc(s)[1] /\ l \in {"$", "-", "`", "'"}))
  /\ AllowedCtx(st, s)

Closed(st) == st.ctx = <<>>

DigitStr(n) == CASE n = 0 -> "0" [] n = 1 -> "1" [] n = 2 -> "2" [] n = 3 -> "3" [] n = 4 -> "4"
                 [] n = 5 -> "5" [] n = 6 -> "6" [] n = 7 -> "7" [] n = 8 -> "8" [] n = 9 -> "9"

\* layout entries inside a reused argument make no separator claim
Opaque(seg) == [i \in 1..Len(seg) |-> IF seg[i].t \in {"ws","cm","cw","v","pb"} THEN (IF seg[i].t = "ws" THEN seg[i] ELSE Lay("x")) ELSE seg[i]]
\* TeX substitution: the body with each #k replaced by the k-th argument; text of the body is
\* generated text of the call (span lo..hi); nested calls expand fully (depth bounds the recursion)
RECURSIVE ExpandElems(_, _, _, _, _, _)
ExpandBody(defs, d, args, lo, hi, depth) == ExpandElems(defs, BodyOf(d), args, lo, hi, depth)
ExpandElems(defs, els, args, lo, hi, depth) ==
  IF els = <<>> \/ depth = 0 THEN <<>>
  ELSE LET e == Head(els)
           this == CASE e[1] = "t" -> <<It("f", e[2], lo, hi, 0)>>
                     [] e[1] = "a" -> Opaque(args[e[2]])
                     [] e[1] = "c" -> LET inner == ExpandElems(defs, e[3], args, lo, hi, depth) IN
                                      IF defs[e[2]] = "none" THEN inner
                                      ELSE ExpandElems(defs, BodyOf(defs[e[2]]), <<inner>>, lo, hi, depth - 1)
       IN this \o ExpandElems(defs, Tail(els), args, lo, hi, depth)

\* end of a foreign-language insertion: pop the language, remember the insertion (C12, second sentence)
CloseLang(st, s1, p1) ==
  LET fr == Top(st)
      fl == st.flows[fr.flow]
      seg == SubSeq(fl, fr.mark + 1, Len(fl))
      words == Len(SelectSeq([i \in 1..Len(seg) |-> IF seg[i].t = "c" /\ (i = 1 \/ seg[i-1].t # "c") THEN "w" ELSE "-"], LAMBDA x : x = "w"))
      simple == \A i \in 1..Len(seg) : seg[i].t \in {"c", "ws"} /\ seg[i].lg = LangOf(fr.nm)
      s2 == [s1 EXCEPT !.ctx = SubSeq(@, 1, Len(@)-1), !.lstack = SubSeq(@, 1, Len(@)-1)] IN
  [Emit(s2, <<Lay("v")>>) EXCEPT !.ins = Append(@, [lo |-> fr.start+1, hi |-> p1, words |-> words, simple |-> simple, flow |-> fr.flow,
                                                     lang |-> LangOf(fr.nm), outer |-> fr.last, depth |-> Len(st.lstack) - 1, kind |-> fr.k])]

(***************************************************************************)
(* One symbol                                                              *)
(***************************************************************************)
Step(st, s) ==
  LET p0 == Pos0(st)                       \* offset where the symbol starts (0-based)
      s1 == AddSrc(st, s)
      p1 == Pos0(s1)                       \* 1-based position of its last character
  IN
  IF InMath(st) THEN
     LET fr == Top(st) IN
     IF s # CloserOf(fr.nm) THEN
        [s1 EXCEPT !.ctx[Len(st.ctx)].args = Append(@, [s |-> s, p |-> p0]),
                   !.ctx[Len(st.ctx)].cnt = IF s = "mob" THEN @ + 1 ELSE IF s = "mcb" THEN @ - 1 ELSE @]
     ELSE LET s2 == [s1 EXCEPT !.ctx = SubSeq(@, 1, Len(@)-1)] IN
       IF fr.k = "math" THEN
          LET sh == InlineShape(fr.args)
              cls == IF sh.punct = "." THEN "phi." ELSE IF sh.punct = "," THEN "phi," ELSE "phi"
              s3 == IF InKind(s2, "sec") THEN Feat(s2, "maths-in-heading") ELSE s2 IN
          NoteText(Emit([s3 EXCEPT !.fml = Append(@, [lo |-> fr.start+1, hi |-> p1, sp1 |-> sh.sp1, sp2 |-> sh.sp2, punct |-> sh.punct, lg |-> CurLang(st)])],
                        <<Lay("x"), It("g", cls, fr.start+1, p1, 1), Lay("x")>>), IF sh.punct = "" THEN "P" ELSE sh.punct)
       ELSE
          LET r == RefEq(fr.args, st.didx)
              q == RefEqSimple(fr.args, st.didx) IN
          Emit([s2 EXCEPT !.didx = r.idx, !.eqs = Append(@, [lo |-> fr.start+1, hi |-> p1, pieces |-> r.pieces, simple |-> q.pieces])],
               <<Lay("x"), It("g", "phd", fr.start+1, p1, 0), Lay("x")>>)
  ELSE IF InSkip(st) THEN
     ( IF s = "fnq" THEN Feat(s1, IF Top(st).k = "rm" THEN "detached-in-removed-env" ELSE "detached-in-skipped")
       ELSE IF (Top(st).k = "skip" /\ s = "ske") \/ (Top(st).k = "rm" /\ s = "el")
       THEN LET s2 == [s1 EXCEPT !.ctx = SubSeq(@, 1, Len(@)-1)] IN
            \* (the paragraph break behind a removed environment is generated white space of its \end)
            Emit(s2, IF s = "ske" THEN <<Lay("cm")>> ELSE <<It("g", "ws", p0+1, p1, 0), Lay("v")>>)
       ELSE s1 )                               \* everything inside is hidden
  ELSE
  CASE s \in Visible ->
         NoteText(Emit(s1, <<It("c", s, p0+1, p0+1, 0)>>), s)
    [] s \in ReplSyms ->
         NoteText(Emit(s1, <<Lay("x"), It("c", ReplChar(s), p0+1, p0+1, 1), Lay("x")>>), ReplChar(s))
    [] s = "sp"  -> Emit(s1, <<It("ws", "", 0, 0, 0)>>)
    [] s = "tab" -> Emit(s1, <<It("ws", "", 0, 0, 0)>>)
    [] s = "nl"  -> Emit(s1, <<It("ws", "", 0, 0, 1)>>)
    [] s = "cm"  -> Emit(s1, <<Lay("cm")>>)
    [] s \in {"lb","ix","skp","dclF"} -> Emit(s1, <<Lay("v")>>)
    [] s = "fnm" -> Emit(s1, <<Lay("x")>>)
    [] s = "uk"  -> AddUnk(Emit(s1, <<Lay("cw")>>), <<BS,"f","o","o">>)
    [] s = "uk2" -> AddUnk(Emit(s1, <<Lay("cw")>>), <<BS,"b","a","r">>)
    [] s = "hsu" -> AddUnk(Emit(s1, <<Lay("x"), It("g", "ws", p0+1, p1, 0), Lay("x")>>), <<BS,"f","o","o">>)
    [] s = "phu" -> AddUnk(Emit(s1, <<Lay("v")>>), <<BS,"b","a","r">>)
    [] s = "par" -> Emit(s1, <<It("g", "ws", p0+1, p1, 0), Lay("pb"), Lay("cw")>>)
    [] s \in {"im","imp"} ->
         \* one placeholder; the closing punctuation mark of the formula is kept
         NoteText(Emit([(IF InKind(st, "sec") THEN Feat(s1, "maths-in-heading") ELSE s1) EXCEPT !.nfml = @ + 1,
                         !.fml = Append(@, [lo |-> p0+1, hi |-> p1, sp1 |-> FALSE, sp2 |-> FALSE, punct |-> IF s = "imp" THEN "." ELSE "", lg |-> CurLang(st)])],
                  <<Lay("x"), It("g", "phi", p0+1, p1, 1)>> \o
                  (IF s = "imp" THEN <<It("f", ".", p0+1, p1, 0)>> ELSE <<>>) \o <<Lay("x")>>),
                  IF s = "imp" THEN "." ELSE "P")
    [] s = "ref" -> NoteText(Emit(s1, <<Lay("x"), It("f", "0", p0+1, p1, 0), Lay("x")>>), "0")
    [] s = "cite" -> NoteText(Emit(s1, <<Lay("x"), It("f", "[", p0+1, p1, 0), It("f", "0", p0+1, p1, 0),
                                        It("f", "]", p0+1, p1, 0), Lay("x")>>), "]")
    [] s = "vb" -> NoteText(Emit(s1, <<Lay("x"), It("c", "a", p0+7, p0+7, 0), It("c", "%", p0+8, p0+8, 0), Lay("x")>>), "%")
    [] s = "vbd" -> NoteText(Emit(s1, <<Lay("x"), It("c", "$", p0+7, p0+7, 0), Lay("x")>>), "$")
    [] s = "vbb" -> NoteText(Emit(s1, <<Lay("x"), It("c", "{", p0+7, p0+7, 0), Lay("x")>>), "{")
    \* verbatim environment: content copied with exact positions, framed by paragraph breaks
    [] s = "vrb" -> NoteText(Emit(s1, <<It("g", "ws", p0+1, p1, 0), Lay("pb"), Lay("x"), It("c", "a", p0+18, p0+18, 0), It("c", "%", p0+19, p0+19, 0),
                                       Lay("x"), It("g", "ws", p0+1, p1, 0), Lay("pb")>>), "%")
    [] s = "vrb2" -> NoteText(Emit(s1, <<It("g", "ws", p0+1, p1, 0), Lay("pb"), Lay("x"), It("c", "a", p0+18, p0+18, 0), It("c", "%", p0+19, p0+19, 0),
                                       Lay("x"), It("g", "ws", p0+1, p1, 0), Lay("pb")>>), "%")
    [] s \in {"cmf", "cmu"} -> Emit(s1, <<Lay("cm")>>)
    \* language switches: \selectlanguage / babel option replace the language in force, \foreignlanguage and the
    \* otherlanguage environments push it for their extent
    [] s \in LangSel -> [Emit(IF s = "babD" THEN Feat(s1, "babel-option") ELSE s1, <<Lay("v")>>) EXCEPT !.lstack[Len(st.lstack)] = LangOf(s)]
    [] s \in LangOpen ->
         [Emit(s1, <<Lay("v")>>) EXCEPT !.lstack = Append(@, LangOf(s)),
              !.ctx = Append(@, [Frame(IF s \in {"olD", "olsF"} THEN "lenv" ELSE "lang", CurFlow(st), p0)
                                   EXCEPT !.nm = s, !.mark = Len(st.flows[CurFlow(st)]) + 1, !.last = CurLang(st)])]
    [] s \in {"eol", "eols"} -> CloseLang(st, s1, p1)
    [] s \in FaultSyms ->
         \* one injected fault: the complete mark must appear, mapped to the place of the problem
         LET f == p0 + FaultOff(s)
             keep == IF s = "FargE" THEN <<It("c", "a", p1, p1, 0)>> ELSE IF s = "FoptE" THEN <<It("c", "a", p1, p1, 0)>> ELSE <<>> IN
         [Emit(s1, <<Lay("x"), It("g", "mark", p0+1, p1, 1)>> \o keep \o <<Lay("x")>>)
            EXCEPT !.fault = <<[f |-> f, end |-> p1, sym |-> s]>>, !.ended = s \in EofFaults]
    [] s \in DefSyms -> [Emit(s1, <<Lay("v")>>) EXCEPT !.defs[MacroOf(s)] = s]
    [] s = "up" -> Emit(s1, <<Lay("v")>>)
    [] s = "rbk" -> NoteText(Emit(s1, <<It("c", "]", p0+1, p0+1, 0)>>), "]")
    [] s = "uA" ->
         IF st.defs["ma"] = "none" THEN AddUnk(Emit(s1, <<Lay("cw")>>), <<BS,"m","a">>)
         ELSE NoteText(Emit(Feat(s1, "umacro"), <<Lay("x")>> \o ExpandBody(st.defs, st.defs["ma"], <<>>, p0+1, p1, 3) \o <<Lay("x"), Lay("cw")>>), "n")
    [] s = "uI" ->
         \* a formula generated by a macro: one placeholder, mapped into the call
         IF st.defs["mi"] = "none" THEN AddUnk(Emit(s1, <<Lay("cw")>>), <<BS,"m","i">>)
         ELSE NoteText(Emit([(IF InKind(st, "sec") THEN Feat(Feat(s1, "umacro"), "maths-in-heading") ELSE Feat(s1, "umacro")) EXCEPT !.nfml = @ + 1,
                         !.fml = Append(@, [lo |-> p0+1, hi |-> p1, sp1 |-> FALSE, sp2 |-> FALSE, punct |-> "", lg |-> CurLang(st)])],
                  <<Lay("x"), It("g", "phi", p0+1, p1, 1), Lay("x"), Lay("cw")>>), "P")
    [] s = "uH" ->
         \* only an optional parameter, omitted: the default text is generated text of this use
         IF st.defs["mh"] = "none" THEN AddUnk(Emit(s1, <<Lay("cw")>>), <<BS,"m","h">>)
         ELSE NoteText(Emit(Feat(Feat(s1, "umacro"), "default-used"), <<Lay("x")>> \o
                   ExpandBody(st.defs, "dH", << <<It("f", "d", p0+1, p1, 0)>> >>, p0+1, p1, 3) \o <<Lay("x"), Lay("cw")>>), "d")
    [] s = "uBt" ->
         IF st.defs["mb"] = "none" THEN NoteText(AddUnk(Emit(s1, <<Lay("cw"), It("ws","",0,0,0), It("c", "b", p1, p1, 0)>>), <<BS,"m","b">>), "b")
         ELSE NoteText(Emit(Feat(Feat(s1, "umacro"), "single-token-arg"),
                   <<Lay("x")>> \o ExpandBody(st.defs, st.defs["mb"], << <<It("c", "b", p1, p1, 0)>> >>, p0+1, p1, 3) \o <<Lay("x")>>), "n")
    [] s = "acb" ->
         \* the first argument of \LTalter ends (it is the one an extraction list reports), the second begins
         LET fr == Top(st) IN
         IF st.mode = "extr" THEN
            LET nf == Len(st.flows) + 1 IN
            [s1 EXCEPT !.spans[fr.flow] = <<fr.start+1, p1>>, !.flows = Append(@, <<>>), !.spans = Append(@, <<p0+1, 0>>), !.drop = @ \cup {nf},
                       !.ctx[Len(st.ctx)] = Frame("hid", nf, fr.start)]
         ELSE [s1 EXCEPT !.ctx[Len(st.ctx)] = Frame("arg", fr.mark, fr.start)]
    \* & and \\ become a blank at their own position; an accent macro becomes the accented letter at the position of the macro
    \* (a macro whose last parameter is optional looks for [ behind following blanks: the blanks are skipped as after a
    \*  control word - documented behaviour, pinned by the repository's tests for \newtheorem)
    [] s = "ntm" -> Emit(Feat(s1, "thm-declared"), <<Lay("v"), Lay("cw")>>)
    [] s \in {"tamp", "tbsl"} -> Emit(s1, <<Lay("x"), It("g", "ws", p0+1, p1, 0), Lay("x")>>)
    [] s = "acc" -> NoteText(Emit(s1, <<Lay("x"), It("c", "U+00E4", p0+1, p0+1, 1), Lay("x")>>), "U+00E4")
    [] s = "hsp" -> Emit(s1, <<Lay("x"), It("g", "ws", p0+1, p1, 0), Lay("x")>>)
    [] s = "hs0" -> Emit(s1, <<Lay("v")>>)
    [] s = "phn" -> Emit(s1, <<Lay("x"), It("g", "ws", p0+1, p1, 0), Lay("x")>>)
    [] s = "fct" ->
         \* \footcite{k}: a detached flow "[0]." that maps into the macro
         LET nf == Len(st.flows) + 1 IN
         [Emit(s1, <<Lay("v")>>) EXCEPT !.flows = Append(@, <<It("f", "[", p0+1, p1, 0), It("f", "0", p0+1, p1, 0), It("f", "]", p0+1, p1, 0), It("f", ".", p0+1, p1, 0)>>),
                                         !.spans = Append(@, <<p0+1, p1>>)]
    [] s = "tbs" -> NoteText(Emit(s1, <<Lay("x"), It("f", BS, p0+1, p1, 0), Lay("x"), Lay("cw")>>), BS)
    [] s = "ilc" ->
         \* \item[label]: the label is copied, framed by blanks; a punctuation mark that ends the text before the item may be repeated behind it
         LET fr == Top(st)
             seg == SubSeq(st.flows[fr.flow], fr.mark + 1, Len(st.flows[fr.flow]))
             s2 == [s1 EXCEPT !.ctx = SubSeq(@, 1, Len(@)-1), !.flows[fr.flow] = SubSeq(@, 1, fr.mark)] IN
         NoteText(Emit(s2, <<Lay("x"), It("g", "ws", fr.start+1, p1, 0)>> \o Opaque(seg) \o
                           <<It("g", "ipunct", fr.start+1, p1, 0), It("g", "ws", fr.start+1, p1, 0), Lay("x")>>), "l")
    [] s = "gld" -> Emit(Feat(s1, "glossary-loaded"), <<Lay("v")>>)
    \* \gls{ab}: the text of the entry is generated text of this use
    [] s = "gls" -> NoteText(Emit(s1, <<Lay("x"), It("f", "a", p0+1, p1, 0), It("f", "b", p0+1, p1, 0), It("f", "t", p0+1, p1, 0), Lay("x")>>), "t")
    [] s = "glsC" -> NoteText(Emit(s1, <<Lay("x"), It("f", "A", p0+1, p1, 0), It("f", "b", p0+1, p1, 0), It("f", "t", p0+1, p1, 0), Lay("x")>>), "t")
    [] s = "glsU" -> NoteText(Emit(s1, <<Lay("x"), It("f", "A", p0+1, p1, 0), It("f", "B", p0+1, p1, 0), It("f", "T", p0+1, p1, 0), Lay("x")>>), "T")
    [] s = "gle" -> NoteText(Emit(s1, <<Lay("x"), It("f", "A", p0+41, p0+41, 0), It("ws", "", 0, 0, 0), Lay("v"), It("c", "b", p0+44, p0+44, 0), Lay("v"),
                                       It("ws", "", 0, 0, 0), It("c", "c", p0+47, p0+47, 0), It("f", ".", p0+1, p1, 0), Lay("x")>>), ".")
    [] s = "ltE" -> Emit(s1, <<Lay("v")>>)
    [] s = "ltD" -> [Emit(s1, <<Lay("v")>>) EXCEPT !.defs["ma"] = "dA"]
    [] s = "ocb" ->
         \* the optional argument of \mc ends, its mandatory argument begins
         LET fr == Top(st)
             seg == SubSeq(st.flows[fr.flow], fr.mark + 1, Len(st.flows[fr.flow])) IN
         [s1 EXCEPT !.flows[fr.flow] = SubSeq(@, 1, fr.mark),
                    !.ctx[Len(st.ctx)] = [fr EXCEPT !.k = "marg", !.args = <<seg>>]]
    [] s = "ctc" ->
         LET fr == Top(st)
             seg == SubSeq(st.flows[fr.flow], fr.mark + 1, Len(st.flows[fr.flow]))
             s2 == [s1 EXCEPT !.ctx = SubSeq(@, 1, Len(@)-1), !.flows[fr.flow] = SubSeq(@, 1, fr.mark)] IN
         \* (an empty optional argument: the built-in \cite writes "[0, ]", biblatex's "[0]" - the separator is then free)
         NoteText(Emit(s2, <<Lay("x"), It("f", "[", fr.start+1, p1, 0), It("f", "0", fr.start+1, p1, 0)>> \o
                          (IF \E i \in 1..Len(seg) : seg[i].t = "c" THEN <<It("f", ",", fr.start+1, p1, 0)>> ELSE <<It("g", "citesep", fr.start+1, p1, 0)>>) \o
                          <<It("g", "ws", fr.start+1, p1, 0), Lay("x")>> \o Opaque(seg) \o <<It("f", "]", fr.start+1, p1, 0), Lay("x")>>), "]")
    [] s \in MathOpen -> [s1 EXCEPT !.ctx = Append(@, [Frame("math", CurFlow(st), p0) EXCEPT !.nm = s])]
    [] s \in DispOpen -> [s1 EXCEPT !.ctx = Append(@, [Frame("deq", CurFlow(st), p0) EXCEPT !.nm = s])]
    [] s = "skb" -> [s1 EXCEPT !.ctx = Append(@, Frame("skip", CurFlow(st), p0))]
    [] s \in OpenSyms ->
         LET k0 == OpenKind(s)
             \* extraction mode: \footnote and \xfoo are listed; other known macros with arguments are skipped with their arguments
             k == IF k0 = "xo" THEN (IF st.mode = "extr" THEN "fn" ELSE "grp")
                  ELSE IF st.mode = "extr" /\ (s = "cap" \/ k0 \in {"arg", "sec"}) THEN "hid" ELSE k0 IN
         IF s = "alt" THEN
            LET nf == Len(st.flows) + 1 IN
            [Emit(s1, <<Lay("v")>>) EXCEPT !.flows = Append(@, <<>>), !.spans = Append(@, <<p0+1, 0>>),
                       !.drop = IF st.mode = "extr" THEN @ ELSE @ \cup {nf},
                       !.ctx = Append(@, [Frame("alt1", nf, p0) EXCEPT !.mark = CurFlow(st)])]
         ELSE IF s = "xo" /\ st.mode # "extr" THEN
            [AddUnk(Emit(s1, <<Lay("v")>>), <<BS,"x","f","o","o">>) EXCEPT !.ctx = Append(@, Frame("grp", CurFlow(st), p0))]
         ELSE IF k = "hid" THEN
            LET nf == Len(st.flows) + 1 IN
            [s1 EXCEPT !.flows = Append(@, <<>>), !.spans = Append(@, <<p0+1, 0>>), !.drop = @ \cup {nf},
                       !.ctx = Append(@, Frame("hid", nf, p0))]
         ELSE IF k = "fn" THEN
            LET nf == Len(st.flows) + 1 IN
            [Emit(IF InKind(st, "sec") THEN Feat(s1, "detached-in-heading") ELSE s1, <<Lay("v")>>) EXCEPT !.flows = Append(@, <<>>), !.spans = Append(@, <<p0+1, 0>>),
                                           !.ctx = Append(@, Frame("fn", nf, p0))]
         ELSE IF k \in {"marg", "mopt"} THEN
            IF st.defs[MacroOf(s)] = "none" THEN
               \* use before the definition: an unknown macro, its braced argument stays (as a group)
               [AddUnk(Emit(s1, <<Lay("v")>>), MacroChars(MacroOf(s))) EXCEPT !.ctx = Append(@, Frame(IF k = "marg" THEN "grp" ELSE "ubr", CurFlow(st), p0))]
            ELSE [Feat(s1, "umacro") EXCEPT !.ctx = Append(@, [Frame(k, CurFlow(st), p0) EXCEPT !.nm = MacroOf(s), !.mark = Len(st.flows[CurFlow(st)])])]
         ELSE IF k = "ilab" THEN
            [s1 EXCEPT !.ctx = Append(@, [Frame(k, CurFlow(st), p0) EXCEPT !.mark = Len(st.flows[CurFlow(st)])])]
         ELSE IF k = "copt" THEN
            [s1 EXCEPT !.ctx = Append(@, [Frame(k, CurFlow(st), p0) EXCEPT !.mark = Len(st.flows[CurFlow(st)])])]
         ELSE [Emit(s1, <<Lay("v")>>) EXCEPT !.ctx = Append(@, Frame(k, CurFlow(st), p0))]
    [] s = "cb" ->
         LET fr == Top(st)
             s2 == [s1 EXCEPT !.ctx = SubSeq(@, 1, Len(@)-1)] IN
         IF fr.k = "fn" THEN [Emit(s2, <<Lay("v")>>) EXCEPT !.spans[fr.flow] = <<fr.start+1, p1>>]
         ELSE IF fr.k = "lang" THEN CloseLang(st, s1, p1)
         ELSE IF fr.k = "marg" THEN
            LET seg == SubSeq(st.flows[fr.flow], fr.mark + 1, Len(st.flows[fr.flow]))
                d == st.defs[fr.nm]
                \* \mc: an omitted optional argument takes the default text d
                args == IF fr.nm = "mc" THEN (IF fr.args = <<>> THEN << <<It("f", "d", fr.start+1, p1, 0)>>, seg >> ELSE <<fr.args[1], seg>>)
                        ELSE <<seg>>
                s3 == [s2 EXCEPT !.flows[fr.flow] = SubSeq(@, 1, fr.mark)]
                s4 == IF fr.nm = "mc" /\ fr.args = <<>> THEN Feat(s3, "default-used") ELSE s3 IN
            NoteText(Emit(s4, <<Lay("x")>> \o ExpandBody(st.defs, d, args, fr.start+1, p1, 3) \o <<Lay("x")>>), "n")
         ELSE IF fr.k = "sec" THEN
            \* heading: a full stop is added unless the heading text is empty or ends with ! or ?
            IF fr.has /\ fr.last \notin {"!", "?"}
            THEN NoteText(Emit(s2, <<It("f", ".", fr.start+1, p1, 0), Lay("x")>>), ".")
            ELSE Emit(s2, <<Lay("x")>>)
         ELSE Emit(s2, <<Lay("v")>>)
    [] s \in BeginSyms ->
         LET e == EnvOf(s)
             fr == [Frame("env", CurFlow(st), p0) EXCEPT !.last = e]
             cnt == Len(SelectSeq(st.ctx, LAMBDA f : f.k = "env" /\ f.last = e)) IN
         IF e = "lstlisting" THEN [Emit(s1, <<It("g", "ws", p0+1, p1, 0), Lay("pb")>>) EXCEPT !.ctx = Append(@, Frame("rm", CurFlow(st), p0))]
         ELSE IF e = "minipage" THEN [Emit(s1, <<It("g", "ws", p0+1, p1, 0), Lay("pb")>>) EXCEPT !.ctx = Append(@, fr)]
         ELSE IF e = "thm" THEN
            \* \newtheorem{thm}{Tmmmmmmmmmmmm}: a declared theorem-like environment forms a paragraph and starts with its title and a full stop;
            \* used before its declaration it is an unknown environment
            IF "thm-declared" \in st.feat THEN
               [Emit(s1, <<It("g", "ws", p0+1, p1, 0), Lay("pb"), Lay("x"), It("f", "T", p0+1, p1, 0)>> \o [k \in 1..12 |-> It("f", "m", p0+1, p1, 0)] \o <<It("f", ".", p0+1, p1, 0),
                           It("g", "ws", p0+1, p1, 0), Lay("x")>>) EXCEPT !.ctx = Append(@, [fr EXCEPT !.nm = "declared"])]
            ELSE [AddUnk(Emit(s1, <<Lay("v")>>), <<"t","h","m">>) EXCEPT !.ctx = Append(@, fr)]
         ELSE IF e = "proof" THEN
            \* amsthm: paragraph break, the title "Proof." and a line break
            [Emit(s1, <<It("g", "ws", p0+1, p1, 0), Lay("pb"), Lay("x"), It("f", "P", p0+1, p1, 0), It("f", "r", p0+1, p1, 0), It("f", "o", p0+1, p1, 0),
                        It("f", "o", p0+1, p1, 0), It("f", "f", p0+1, p1, 0), It("f", ".", p0+1, p1, 0), It("g", "ws", p0+1, p1, 0), Lay("x")>>) EXCEPT !.ctx = Append(@, fr)]
         ELSE IF e = "tabular" THEN [Emit(s1, <<Lay("v")>>) EXCEPT !.ctx = Append(@, fr)]
         ELSE IF e = "unk" THEN [AddUnk(Emit(s1, <<Lay("v")>>), <<"u","n","k">>) EXCEPT !.ctx = Append(@, fr)]
         ELSE [Emit(s1, <<Lay("v")>>) EXCEPT !.ctx = Append(@, [fr EXCEPT !.start = cnt])]   \* start reused: nesting level
    [] s \in EndSyms ->
         LET e == EnvOf(s)
             s2 == [s1 EXCEPT !.ctx = SubSeq(@, 1, Len(@)-1)] IN
         IF e \in {"minipage", "proof"} \/ (e = "thm" /\ "thm-declared" \in st.feat) THEN Emit(s2, <<It("g", "ws", p0+1, p1, 0), Lay("pb")>>)
         ELSE Emit(s2, <<Lay("v")>>)
    [] s = "it" ->
         \* item label: itemize has an empty default label; enumerate counts 1., 2., ... (a., b., ... when nested)
         LET fr == Top(st)
             n == fr.cnt + 1
             s2 == [s1 EXCEPT !.ctx[Len(st.ctx)].cnt = n] IN
         IF fr.last = "enumerate" /\ fr.start = 0 /\ n <= 9 THEN
            NoteText(Emit(s2, <<Lay("x"), It("f", DigitStr(n), p0+1, p1, 0), It("f", ".", p0+1, p1, 0),
                       It("g", "ws", p0+1, p1, 0), Lay("x"), Lay("cw")>>), ".")
         ELSE IF fr.last = "enumerate" THEN
            NoteText(Emit(s2, <<Lay("x"), It("g", "label", p0+1, p1, 1), Lay("x"), Lay("cw")>>), ".")
         ELSE Emit(s2, <<Lay("x"), It("g", "ws", p0+1, p1, 0), Lay("x"), Lay("cw")>>)
    [] OTHER -> s1


(***************************************************************************)
(* Composite symbols: whole source lines, for the line-removal logic (C05) *)
(***************************************************************************)
Expand(s) ==
  CASE s = "L_a" -> <<"a","nl">> [] s = "L_ia" -> <<"sp","a","nl">> [] s = "L_iia" -> <<"sp","sp","a","nl">>
    [] s = "L_lb" -> <<"lb","nl">> [] s = "L_ilb" -> <<"sp","sp","lb","nl">> [] s = "L_tlb" -> <<"tab","lb","nl">>
    [] s = "L_uk" -> <<"uk","nl">> [] s = "L_iuk" -> <<"sp","uk","nl">>
    [] s = "L_e" -> <<"nl">> [] s = "L_sp" -> <<"sp","nl">>
    [] s = "L_cm" -> <<"cm">> [] s = "L_icm" -> <<"sp","cm">>
    [] s = "L_alb" -> <<"a","sp","lb","nl">> [] s = "L_lba" -> <<"lb","sp","a","nl">>
    [] s = "L_ob" -> <<"ob","nl">> [] s = "L_cb" -> <<"cb","nl">> [] s = "L_skp" -> <<"skp","nl">>
    [] s = "L_par" -> <<"par","nl">> [] s = "L_vrb" -> <<"vrb","nl">> [] s = "L_ix2" -> <<"ix","lb","nl">>
    [] OTHER -> <<s>>
RECURSIVE AllowedSeq(_, _)
AllowedSeq(st, ss) == IF ss = <<>> THEN TRUE ELSE Allowed(st, Head(ss)) /\ AllowedSeq(Step(st, Head(ss)), Tail(ss))

RECURSIVE Run(_, _)
Run(st, doc) == IF doc = <<>> THEN st ELSE Run(Step(st, Head(doc)), Tail(doc))

(***************************************************************************)
(* From layout entries to separator classes                                *)
(***************************************************************************)
(* TeX's rules as the statement of C05 gives them: a maximal white-space    *)
(* run with two or more line breaks is a paragraph break; otherwise it is a *)
(* blank, unless it directly follows a control word; a comment swallows its *)
(* line end and the indentation of the next line unless that line is blank. *)
(* State of the fold: pend in {"glue","blank","par","any"}, acw (after a    *)
(* control word), nls = line breaks in the current white-space run (-1: not *)
(* in a run), cmt = the run started with the line end of a comment.         *)
Bump(pend, k) == IF pend = "lead" THEN "lead" ELSE IF pend = "any" \/ k = "any" THEN "any"
                 ELSE IF pend = "par" \/ k = "par" THEN "par"
                 ELSE IF pend = "blank" \/ k = "blank" THEN "blank" ELSE "glue"

\* close a white-space run with n line breaks (cmt: it began with a comment's line end)
CloseRun(z) ==
  IF ~z.inrun THEN z
  ELSE LET n == z.nls + (IF z.cmt THEN 1 ELSE 0) IN
       IF n >= 2 THEN [z EXCEPT !.pend = Bump(@, "par"), !.acw = FALSE, !.inrun = FALSE, !.cmt = FALSE, !.nls = 0]
       ELSE IF z.cmt THEN [z EXCEPT !.inrun = FALSE, !.cmt = FALSE, !.nls = 0]       \* swallowed by the comment
       ELSE IF z.acw THEN [z EXCEPT !.inrun = FALSE, !.nls = 0]
       ELSE [z EXCEPT !.pend = Bump(@, "blank"), !.inrun = FALSE, !.nls = 0]

Z0 == [pend |-> "lead", acw |-> FALSE, inrun |-> FALSE, cmt |-> FALSE, nls |-> 0, out |-> <<>>]

RECURSIVE Seps(_, _)
Seps(flow, z) ==
  IF flow = <<>> THEN z.out
  ELSE LET e == Head(flow) r == Tail(flow) IN
    IF e.t = "ws" THEN Seps(r, [z EXCEPT !.inrun = TRUE, !.nls = @ + e.n])
    ELSE LET y == CloseRun(z) IN
      CASE e.t = "cm" -> Seps(r, [y EXCEPT !.inrun = TRUE, !.cmt = TRUE, !.nls = 0])
                         \* a comment opens a (possibly empty) run that begins with its own line end
        [] e.t = "cw" -> Seps(r, [y EXCEPT !.acw = TRUE])
        [] e.t = "v"  -> Seps(r, [y EXCEPT !.acw = FALSE])
        [] e.t = "pb" -> Seps(r, [y EXCEPT !.acw = FALSE, !.pend = IF @ = "lead" THEN "lead" ELSE Bump(@, "par")])
        [] e.t = "x"  -> Seps(r, [y EXCEPT !.acw = FALSE, !.pend = IF @ = "lead" THEN "lead" ELSE "any"])
        [] e.t = "g"  -> Seps(r, [y EXCEPT !.out = Append(@, e)])
        [] e.t \in {"c", "f"} ->
             LET cls == IF e.n = 1 THEN (IF y.pend = "lead" THEN "lead" ELSE "any") ELSE y.pend IN
             Seps(r, [y EXCEPT !.out = @ \o <<It("s", cls, 0, 0, 0), e>>,
                               !.pend = IF e.n = 1 THEN "any" ELSE "glue", !.acw = FALSE])
        [] OTHER -> Seps(r, y)

(***************************************************************************)
(* The expectation                                                         *)
(***************************************************************************)
\* detached flows follow the main flow in order of appearance; each is framed
\* by generated white space that maps into the construct's span
RECURSIVE Detached(_, _, _, _)
Detached(flows, spans, i, drop) ==
  IF i > Len(flows) THEN <<>>
  ELSE IF i \in drop THEN Detached(flows, spans, i+1, drop)
  ELSE LET body == Seps(flows[i], Z0) IN
       \* (the frame is only white space: permitted wherever it maps into the construct, required nowhere)
       <<It("g", "ws", spans[i][1], spans[i][2], 0)>> \o body \o <<It("g", "ws", spans[i][1], spans[i][2], 0)>>
       \o Detached(flows, spans, i+1, drop)

Final(st) == [src |-> st.src,
              items |-> (IF st.mode = "extr" THEN <<>> ELSE Seps(st.flows[1], Z0)) \o Detached(st.flows, st.spans, 2, st.drop),
              fault |-> st.fault, ins |-> st.ins,
              unk |-> st.unk,
              nflows |-> Len(st.flows), feat |-> st.feat, fml |-> st.fml, eqs |-> st.eqs]

Ref(doc) == Final(Run(St0, doc))
RefMode(doc, mode) == Final(Run([St0 EXCEPT !.mode = mode], doc))
RECURSIVE ConcAll(_)
ConcAll(doc) == IF doc = <<>> THEN <<>> ELSE Conc(Head(doc)) \o ConcAll(Tail(doc))
=============================================================================
