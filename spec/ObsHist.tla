------------------------------ MODULE ObsHist ------------------------------
(* trace validation for C17.  Record: {id, hist: [call numbers], results: [digest of the result of each call, made in    *)
(* this order in one process], solo: [digest of the same calls, each made alone in a fresh process], procchanged: [bool]} *)
EXTENDS Naturals, Sequences, FiniteSets, TLC, Json, IOUtils
Recs == ndJsonDeserialize(IOEnv.TRACE_FILE)
VARIABLE cur
Init == cur = 1
Min(S) == CHOOSE x \in S : \A y \in S : x <= y
C17(r) == LET bad == {k \in 1..Len(r.hist) : r.results[k] # r.solo[k]} IN
          IF Len(r.results) # Len(r.hist) THEN "history-not-completed"
          ELSE IF bad = {} THEN "ok" ELSE "result-of-call-" \o ToString(r.hist[Min(bad)]) \o "-at-step-" \o ToString(Min(bad)) \o "-differs-from-fresh-process"
Next == cur <= Len(Recs) /\ cur' = cur + 1
        /\ LET r == Recs[cur] IN PrintT("@V" \o ToJson([id |-> r.id, bind |-> "ok", c17 |-> C17(r),
               drift |-> IF \E k \in 1..Len(r.procchanged) : r.procchanged[k] THEN "process-level-state-changed" ELSE "none"]))
Spec == Init /\ [][Next]_cur
=============================================================================
