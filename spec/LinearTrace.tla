------------------------------ MODULE LinearTrace ------------------------------
(* Trace validation of the real utils.get_txt_pos_ml against Linear.tla, reusing its actions.  Record:              *)
(*   {id, toks, parts: [{lang, idx}]}  idx = token indices of the non-space characters of the part, in order          *)
(* The model runs the same token list; at its end the real parts are judged by the token-level form of C12            *)
(* (every character in exactly one part, labelled with the language in force) and compared with the model's parts.    *)
EXTENDS Linear, IOUtils
Recs == ndJsonDeserialize(IOEnv.TRACE_FILE)
VARIABLE r
tvars == <<vars, r>>
Load(k) == IF k <= Len(Recs) THEN Recs[k].toks ELSE <<>>
TInit == r = 1 /\ toks = Load(1) /\ phase = "sect" /\ i = 1 /\ stack = <<Main>> /\ cur = <<>> /\ sback = FALSE /\ sbrk = FALSE /\ sections = <<>> /\ out = <<>>
TRun == r <= Len(Recs) /\ (Sect \/ SectDone \/ Join \/ JoinDone) /\ r' = r
NonSpace(idx) == SelectSeq(idx, LAMBDA j : toks[j].c # " ")
Judge(rec) ==
  LET P == rec.parts
      words == {j \in Chars : toks[j].c # " "}
      once == \A j \in words : Cardinality({p \in 1..Len(P) : \E x \in 1..Len(P[p].idx) : P[p].idx[x] = j}) = 1
      label == \A p \in 1..Len(P) : \A x \in 1..Len(P[p].idx) : P[p].lang = RefLang(P[p].idx[x])
      mine == {<<out[p].lang, NonSpace(out[p].idx)>> : p \in {p \in 1..Len(out) : NonSpace(out[p].idx) # <<>>}}
      real == {<<P[p].lang, P[p].idx>> : p \in {p \in 1..Len(P) : P[p].idx # <<>>}} IN
  [id |-> rec.id, bind |-> "ok",
   c12 |-> IF ~once THEN "character-not-in-exactly-one-part" ELSE IF ~label THEN "part-labelled-with-another-language-than-the-one-in-force" ELSE "ok",
   drift |-> IF mine = real THEN "none" ELSE "parts-differ-from-Linear.tla"]
TNext == /\ r <= Len(Recs) /\ phase = "done"
         /\ PrintT("@V" \o ToJson(Judge(Recs[r])))
         /\ r' = r + 1 /\ toks' = Load(r + 1) /\ phase' = "sect" /\ i' = 1 /\ stack' = <<Main>> /\ cur' = <<>> /\ sback' = FALSE /\ sbrk' = FALSE
         /\ sections' = <<>> /\ out' = <<>>
TSpec == TInit /\ [][TRun \/ TNext]_tvars
=============================================================================
