------------------------------ MODULE Include ------------------------------
(* C18, second part: the work list of --include (shell.py:261-298).           *)
(* Files are 1..N; Inc[f] is the sequence of files named by the \input /      *)
(* \include statements of f, in order of appearance; Start is the list of     *)
(* files on the command line; Skip the set of files matching --skip.          *)
(* The scenario is chosen nondeterministically in the initial state, so TLC   *)
(* explores the algorithm on ALL inclusion graphs within the bounds (cycles,  *)
(* self-inclusion, duplicates, skipped files).                                *)
EXTENDS Naturals, Sequences, FiniteSets, TLC, Json
CONSTANTS N, MaxInc, Profile
Files == 1..N
\* command-line file lists and skip sets (cfg files cannot hold tuples, hence the profile)
Starts == IF Profile = "quick" THEN {<<1>>, <<1, 2>>, <<2, 1>>, <<3, 3>>}
          ELSE UNION {[1..k -> Files] : k \in 1..2}
Skips == IF Profile = "quick" THEN {{}, {3}} ELSE SUBSET Files
IncLists == UNION {[1..k -> Files] : k \in 0..MaxInc}
VARIABLES inc, start, skip, todo, done, pc
vars == <<inc, start, skip, todo, done, pc>>

Init == /\ inc \in [Files -> IncLists] /\ start \in Starts /\ skip \in Skips
        /\ todo = start /\ done = <<>> /\ pc = "loop"
InSeq(x, s) == \E i \in 1..Len(s) : s[i] = x
\* append the files of l that are neither known nor skipped, in order
RECURSIVE Extend(_, _, _, _)
Extend(td, dn, l, sk) == IF l = <<>> THEN td
   ELSE LET g == Head(l) IN
        IF InSeq(g, dn) \/ InSeq(g, td) \/ g \in sk THEN Extend(td, dn, Tail(l), sk) ELSE Extend(Append(td, g), dn, Tail(l), sk)
\* one iteration of the while loop
Step == /\ pc = "loop" /\ todo # <<>>
        /\ LET f == Head(todo) IN
           IF InSeq(f, done) \/ f \in skip THEN todo' = Tail(todo) /\ done' = done
           ELSE /\ done' = Append(done, f)
                /\ todo' = Extend(Tail(todo), Append(done, f), inc[f], skip)
        /\ UNCHANGED <<inc, start, skip, pc>>
Finish == pc = "loop" /\ todo = <<>> /\ pc' = "done" /\ UNCHANGED <<inc, start, skip, todo, done>>
Next == Step \/ Finish
Spec == Init /\ [][Next]_vars /\ WF_vars(Next)

\* ---- the requirement (C18): exactly the files reachable from the start files through inclusions,
\*      without skipped files (a skipped file is not opened), each once, in discovery order
Edge(a, b) == InSeq(b, inc[a])
RECURSIVE ReachN(_, _)
ReachN(S, k) == IF k = 0 THEN S ELSE ReachN(S \cup {b \in Files \ skip : \E a \in S : Edge(a, b)}, k - 1)
Reach == ReachN({start[i] : i \in 1..Len(start)} \ skip, N)
NoDup(s) == \A i, j \in 1..Len(s) : i # j => s[i] # s[j]
\* discovery order: a file is listed after the file that first names it (or it is a start file)
Discovered == \A i \in 1..Len(done) : InSeq(done[i], start) \/ \E j \in 1..(i-1) : Edge(done[j], done[i])
StartOrder == \A i, j \in 1..Len(start) : (i < j /\ start[i] \notin skip /\ start[j] \notin skip /\ start[i] # start[j]) =>
      \E a, b \in 1..Len(done) : done[a] = start[i] /\ done[b] = start[j] /\ a < b
Safe == NoDup(done) /\ (\A i \in 1..Len(done) : done[i] \notin skip) /\ Discovered
Exact == pc = "done" => {done[i] : i \in 1..Len(done)} = Reach /\ StartOrder
Terminates == <>(pc = "done")
Dump == pc = "done" => PrintT("@@" \o ToJson([inc |-> inc, start |-> start, skip |-> skip, done |-> done]))
=============================================================================
