-------------------------------- MODULE Maths --------------------------------
(* Reference meaning of maths material (README "Handling of displayed        *)
(* equations", "Parser for maths material"; statements of C10 and C11).      *)
(* A formula body is a sequence of entries [s |-> symbol, p |-> 0-based      *)
(* offset of the symbol].  The result is a sequence of PIECES:               *)
(*    [t |-> "lit", ch]           a generated character                      *)
(*    [t |-> "ph",  d]            a placeholder of the collection, number d  *)
(*                                relative to the rotation state             *)
(*    [t |-> "cp",  ch, p]        a copied character (\text) at position p   *)
(*    [t |-> "op",  ch]           operator word of the language ("=" or "+") *)
EXTENDS Chars, Naturals, Sequences, FiniteSets, TLC

Lit(ch) == [t |-> "lit", ch |-> ch, d |-> 0, p |-> 0]
PH(d) == [t |-> "ph", ch |-> "", d |-> d, p |-> 0]
CP(ch, p) == [t |-> "cp", ch |-> ch, d |-> 0, p |-> p]
OP(ch) == [t |-> "op", ch |-> ch, d |-> 0, p |-> 0]

IsMSpace(s) == s \in {"msp", "mti"}
IsMPunct(s) == s \in {"mdt", "mcm"}
IsMOper(s) == s \in {"meq", "mpl"}
IsMElem(s) == s \in {"my", "mw", "mal", "muk", "mfr", "msb"}        \* things that make a maths element
IsMIgnored(s) == s \in {"mlb", "mnn", "mob", "mcb"}            \* \label{k}, \nonumber, braces
PunctCh(s) == IF s = "mdt" THEN "." ELSE ","
OperCh(s) == IF s = "meq" THEN "=" ELSE "+"

(***************************************************************************)
(* inline formula: [sp1, sp2, punct]                                       *)
(***************************************************************************)
Eff(body) == SelectSeq(body, LAMBDA e : ~IsMIgnored(e.s))
InlineShape(body) ==
  LET b == Eff(body)
      ns == SelectSeq(b, LAMBDA e : ~IsMSpace(e.s)) IN
  [sp1 |-> b # <<>> /\ IsMSpace(b[1].s), sp2 |-> b # <<>> /\ IsMSpace(b[Len(b)].s),
   punct |-> IF ns # <<>> /\ IsMPunct(ns[Len(ns)].s) THEN PunctCh(ns[Len(ns)].s) ELSE "",
   onlyspace |-> ns = <<>>]

(***************************************************************************)
(* displayed equation: rows separated by "mnl" (\\), sections by "mam" (&), *)
(* text parts "mtx" (\text{ for })                                         *)
(***************************************************************************)
RECURSIVE SplitAt(_, _, _)
SplitAt(b, sep, cur) == IF b = <<>> THEN <<cur>>
                        ELSE IF Head(b).s = sep THEN <<cur>> \o SplitAt(Tail(b), sep, <<>>)
                        ELSE SplitAt(Tail(b), sep, Append(cur, Head(b)))
\* one run of maths symbols r (no text part inside); st = [idx, pend]; fp = first part of a non-first section
Run1(r, fp, st) ==
  IF \A i \in 1..Len(r) : IsMSpace(r[i].s) THEN [out |-> <<Lit(" ")>>, st |-> st, fp |-> fp]
  ELSE
  LET ns == SelectSeq(r, LAMBDA e : ~IsMSpace(e.s))
      op == IsMOper(ns[1].s)
      elem == \E i \in 1..Len(r) : IsMElem(r[i].s)
      lead == IF IsMSpace(r[1].s) THEN <<Lit(" ")>> ELSE <<>>
      word == IF fp /\ op THEN <<Lit(" "), OP(OperCh(ns[1].s)), Lit(" ")>> ELSE <<>>
      idx == IF (st.pend \/ (op /\ fp)) /\ elem THEN st.idx + 1 ELSE st.idx
      ph == IF elem THEN <<PH(idx)>> ELSE <<>>
      pu == IsMPunct(ns[Len(ns)].s)
      punct == IF pu THEN <<Lit(PunctCh(ns[Len(ns)].s))>> ELSE <<>>
      trail == IF IsMSpace(r[Len(r)].s) THEN <<Lit(" ")>> ELSE <<>> IN
  [out |-> lead \o word \o ph \o punct \o trail,
   st |-> [idx |-> idx, pend |-> pu \/ (op /\ ~elem)], fp |-> FALSE]
\* a section = maths runs separated by text parts
RECURSIVE Sect(_, _, _, _)
Sect(parts, k, fp, st) ==      \* parts: runs between text parts; -> [out, st]
  IF k > Len(parts) THEN [out |-> <<>>, st |-> st]
  ELSE LET r == parts[k]
           a == IF r = <<>> THEN [out |-> <<>>, st |-> st, fp |-> fp] ELSE Run1(r, fp, st)
           \* a text part follows every run except the last one
           txt == IF k < Len(parts) THEN TRUE ELSE FALSE IN
       LET rest == Sect(parts, k+1, IF txt THEN FALSE ELSE a.fp, IF txt THEN [a.st EXCEPT !.pend = TRUE] ELSE a.st) IN
       [out |-> a.out \o (IF txt THEN <<[t |-> "txt", ch |-> "", d |-> k, p |-> 0]>> ELSE <<>>) \o rest.out, st |-> rest.st]
\* the copies of a text part \text{ for }: characters " for " at their own offsets (p = offset of the backslash)
TextCopies(p) == <<CP(" ", p+7), CP("f", p+8), CP("o", p+9), CP("r", p+10), CP(" ", p+11)>>
RECURSIVE FillText(_, _, _)
FillText(out, txs, k) ==       \* replace the k-th "txt" marker by the copies of the k-th text part
  IF out = <<>> THEN <<>>
  ELSE IF Head(out).t = "txt" THEN TextCopies(txs[k].p) \o FillText(Tail(out), txs, k+1)
  ELSE <<Head(out)>> \o FillText(Tail(out), txs, k)
Section(sec, first, st) ==
  LET b == Eff(sec)
      parts == SplitAt(b, "mtx", <<>>)
      txs == SelectSeq(b, LAMBDA e : e.s = "mtx")
      r == Sect(parts, 1, ~first, st) IN
  [out |-> FillText(r.out, txs, 1), st |-> r.st]
RECURSIVE Sections(_, _, _)
Sections(secs, k, st) ==
  IF k > Len(secs) THEN [out |-> <<>>, st |-> st]
  ELSE LET a == Section(secs[k], k = 1, st)
           rest == Sections(secs, k+1, a.st) IN
       [out |-> (IF k > 1 THEN <<Lit(" ")>> ELSE <<>>) \o a.out \o rest.out, st |-> rest.st]
RECURSIVE Rows(_, _, _)
Rows(rows, k, st) ==
  IF k > Len(rows) THEN [out |-> <<>>, st |-> st]
  ELSE LET a == Sections(SplitAt(rows[k], "mam", <<>>), 1, st)
           rest == Rows(rows, k+1, a.st) IN
       [out |-> (IF k > 1 THEN <<Lit(NL), Lit(" "), Lit(" ")>> ELSE <<>>) \o a.out \o rest.out, st |-> rest.st]
\* does a row render anything but blanks?  (a row that renders nothing is a blank line for the line-removal pass)
RendersText(row) ==
  LET o == Sections(SplitAt(row, "mam", <<>>), 1, [idx |-> 0, pend |-> TRUE]).out IN
  \E i \in 1..Len(o) : o[i].t \in {"ph", "op"} \/ (o[i].t \in {"lit", "cp"} /\ ~IsSpace(o[i].ch))
\* complete equation: two leading blanks; idx0 = rotation counter before the equation
RefEq(body, idx0) ==
  LET r == Rows(SplitAt(body, "mnl", <<>>), 1, [idx |-> idx0, pend |-> TRUE]) IN
  [pieces |-> <<Lit(" "), Lit(" ")>> \o r.out, idx |-> r.st.idx]
\* simple mode: one placeholder and the final punctuation mark
RECURSIVE LastNonSpace(_)
LastNonSpace(ps) == IF ps = <<>> THEN "" ELSE LET e == ps[Len(ps)] IN
                    IF e.t \in {"lit", "cp"} /\ IsSpace(e.ch) THEN LastNonSpace(SubSeq(ps, 1, Len(ps)-1))
                    ELSE IF e.t \in {"lit", "cp"} THEN e.ch ELSE "x"
RefEqSimple(body, idx0) ==
  LET r == RefEq(body, idx0)
      l == LastNonSpace(r.pieces) IN
  [pieces |-> <<Lit(" "), Lit(" "), [t |-> "phany", ch |-> "", d |-> 0, p |-> 0]>> \o (IF l \in {".", ",", ";", ":"} THEN <<Lit(l)>> ELSE <<>>),
   idx |-> r.idx]

(***************************************************************************)
(* collections                                                             *)
(***************************************************************************)
Ph(c) == <<c, "-", c, "-", c>>
LangKey(l) == IF Len(l) >= 2 /\ SubSeq(l, 1, 2) = <<"d","e">> THEN "de" ELSE IF Len(l) >= 2 /\ SubSeq(l, 1, 2) = <<"r","u">> THEN "ru" ELSE "en"
InlineColl(lk) == IF lk = "ru" THEN <<Ph("U+0411"), Ph("U+0412"), Ph("U+0413"), Ph("U+0414"), Ph("U+0415"), Ph("U+0416")>>
                  ELSE <<Ph("B"), Ph("C"), Ph("D"), Ph("E"), Ph("F"), Ph("G")>>
DisplayColl(lk) == IF lk = "ru" THEN <<Ph("U+0426"), Ph("U+0427"), Ph("U+0428"), Ph("U+042B"), Ph("U+042D"), Ph("U+042E")>>
                   ELSE <<Ph("U"), Ph("V"), Ph("W"), Ph("X"), Ph("Y"), Ph("Z")>>
OpWord(lk, ch) == CASE lk = "de" -> (IF ch = "+" THEN <<"p","l","u","s">> ELSE <<"g","l","e","i","c","h">>)
                    [] lk = "ru" -> (IF ch = "+" THEN <<"U+043F","U+043B","U+044E","U+0441">> ELSE <<"U+0440","U+0430","U+0432","U+043D","U+043E">>)
                    [] OTHER -> (IF ch = "+" THEN <<"p","l","u","s">> ELSE <<"e","q","u","a","l">>)
IndexIn(coll, x) == IF \E k \in 1..Len(coll) : coll[k] = x THEN CHOOSE k \in 1..Len(coll) : coll[k] = x ELSE 0
=============================================================================
