------------------------------- MODULE ObsChk -------------------------------
(* trace validation for C20.  Record: {id, txt, accept (characters of the     *)
(* option value; hasaccept), repls (placeholder alternatives of the mode;   *)
(* hasrepls), single: [{offset,length,ctext,coffset,clength}], equ: [...]}      *)
EXTENDS Checks, Json, IOUtils
Recs == ndJsonDeserialize(IOEnv.TRACE_FILE)
VARIABLE i
Init == i = 1
Min(S) == CHOOSE x \in S : \A y \in S : x <= y
CtxAll(t, ms) == \A k \in 1..Len(ms) : CtxOk(t, ms[k].offset, ms[k].length, ms[k].ctext, ms[k].coffset, ms[k].clength)
Single(r) ==
  IF ~r.hasaccept THEN (IF Len(r.single) = 0 THEN "ok" ELSE "messages-without-option")
  ELSE LET exp == SingleLetters(r.txt, r.accept)
           got == {r.single[k].offset + 1 : k \in 1..Len(r.single)} IN
       IF \E k \in 1..Len(r.single) : r.single[k].length # 1 THEN "single-letter-message-length-not-1"
       ELSE IF got \ exp # {} THEN "marks-a-character-that-is-no-unaccepted-isolated-letter@" \o ToString(Min(got \ exp) - 1)
       ELSE IF exp \ got # {} THEN "isolated-letter-not-marked@" \o ToString(Min(exp \ got) - 1)
       ELSE IF Cardinality(got) # Len(r.single) THEN "letter-marked-twice"
       ELSE IF ~CtxAll(r.txt, r.single) THEN "context-marks-other-characters"
       ELSE "ok"
Equ(r) ==
  IF ~r.hasrepls THEN (IF Len(r.equ) = 0 THEN "ok" ELSE "messages-without-option")
  ELSE LET exp == EquMsgs(r.txt, 1, r.repls)
           expS == {exp[k] : k \in 1..Len(exp)}
           got == {<<r.equ[k].offset, r.equ[k].length>> : k \in 1..Len(r.equ)} IN
       IF got \ expS # {} THEN "equation-message-not-at-an-offending-placeholder"
       ELSE IF ~CtxAll(r.txt, r.equ) THEN "context-marks-other-characters"
       ELSE IF expS \ got # {} THEN "drift:offending-placeholder-not-reported"
       ELSE "ok"
Next == i <= Len(Recs) /\ i' = i + 1
        /\ LET r == Recs[i] s == Single(r) e == Equ(r) IN
           PrintT("@V" \o ToJson([id |-> r.id, bind |-> "ok", c20 |-> IF s # "ok" THEN s ELSE e]))
Spec == Init /\ [][Next]_i
=============================================================================
