------------------------------- MODULE Scanner -------------------------------
(* LEVEL B: the scanner (scanner.py Scanner.scan / next_token), one action per *)
(* token, branch by branch.  The source is built by generator actions from a  *)
(* small alphabet of characters and multi-character snippets (so that the     *)
(* \verb / verbatim branches are reached within small bounds).                *)
(* Invariants: the cursor strictly advances, tokens tile the source (with the *)
(* documented exceptions: \verb and verbatim tokens carry the offset of their *)
(* first content character), the text of a token is the source slice at its   *)
(* offset, a special token is the longest table key matching there, a comment *)
(* never swallows a blank line.                                               *)
EXTENDS Chars, Naturals, Sequences, FiniteSets, TLC, Json
CONSTANTS MaxSym, NAlpha
Alpha == SubSeq(<< <<"a">>, <<" ">>, <<NL>>, <<"%">>, <<BS>>, <<"{">>, <<"}">>, <<"-">>, <<"$">>, <<"#">>, <<"1">>, <<"'">>,
                   <<BS,"v","e","r","b","|">>, <<"|">>, <<BS,"b","e","g","i","n">>, <<"{","v","e","r","b","a","t","i","m","}">>,
                   <<BS,"e","n","d","{","v","e","r","b","a","t","i","m","}">>, <<BS,"i","t","e","m">>, <<"`">>, <<"~">>, <<",">>, <<"&">>, <<TAB>> >>, 1, NAlpha)
VARIABLES src, n, phase, pos, toks
vars == <<src, n, phase, pos, toks>>

\* special tokens (parameters.py:311-351), longest first
Specials == { <<"{">>, <<"}">>, <<"$","$">>, <<"$">>, <<"#">>, <<"&">>, <<"_">>, <<"^">>, <<BS,"(">>, <<BS,")">>, <<BS,"[">>, <<BS,"]">>, <<BS,BS>>,
              <<"~">>, <<"`","`">>, <<"'","'">>, <<"-","-">>, <<"-","-","-">>, <<BS," ">>, <<BS,TAB>>, <<BS,NL>>, <<BS,",">>, <<BS,":">>, <<BS,";">>,
              <<BS,"!">>, <<BS,"{">>, <<BS,"}">>, <<BS,"$">>, <<BS,"#">>, <<BS,"&">>, <<BS,"_">>, <<BS,"%">> }
Accents == { <<BS,"'">>, <<BS,"`">>, <<BS,"^">>, <<BS,"v">>, <<BS,"~">>, <<BS,"\"">>, <<BS,"r">>, <<BS,"=">>, <<BS,"b">>, <<BS,"u">>, <<BS,"H">>,
             <<BS,".">>, <<BS,"d">>, <<BS,"c">>, <<BS,"k">> }
At(s, i) == IF i >= 1 /\ i <= Len(s) THEN s[i] ELSE "EOT"
StartsAt(s, i, w) == i + Len(w) - 1 <= Len(s) /\ \A k \in 1..Len(w) : s[i+k-1] = w[k]
RECURSIVE Find(_, _, _)
Find(s, i, w) == IF i > Len(s) THEN 0 ELSE IF StartsAt(s, i, w) THEN i ELSE Find(s, i+1, w)      \* str.find, 1-based, 0 = not found
RECURSIVE SkipSp(_, _), SkipMac(_, _), SkipToNL(_, _), SkipToDelim(_, _, _)
SkipSp(s, i) == IF i <= Len(s) /\ IsSpace(s[i]) THEN SkipSp(s, i+1) ELSE i
SkipMac(s, i) == IF i <= Len(s) /\ IsMacroChar(s[i]) THEN SkipMac(s, i+1) ELSE i
SkipToNL(s, i) == IF i <= Len(s) /\ s[i] # NL THEN SkipToNL(s, i+1) ELSE i
SkipToDelim(s, i, d) == IF i <= Len(s) /\ s[i] # d /\ s[i] # NL THEN SkipToDelim(s, i+1, d) ELSE i
Tok(k, p, t) == [k |-> k, p |-> p, t |-> t]             \* p: 0-based offset
Mark == <<" ","L","A","T","E","X","X","X","E","R","R","O","R"," ">>

Init == src = <<>> /\ n = 0 /\ phase = "build" /\ pos = 1 /\ toks = <<>>
Add(k) == phase = "build" /\ n < MaxSym /\ src' = src \o Alpha[k] /\ n' = n + 1 /\ UNCHANGED <<phase, pos, toks>>
Start == phase = "build" /\ n > 0 /\ phase' = "scan" /\ UNCHANGED <<src, n, pos, toks>>

\* one call of next_token; pos is the 1-based index of the next character
SpecCands == {w \in Specials : StartsAt(src, pos, w)}
ScanSpace == /\ IsSpace(src[pos])
             /\ LET e == SkipSp(src, pos + 1) sp == SubSeq(src, pos, e - 1) IN
                toks' = Append(toks, Tok(IF CountNL(sp) < 2 THEN "SpaceToken" ELSE "ParagraphToken", pos - 1, sp)) /\ pos' = e
ScanComment == /\ src[pos] = "%"
               /\ LET nl == SkipToNL(src, pos + 1)              \* index of the line break or Len+1
                      nn == SkipSp(src, nl + 1)
                      e == IF nl > Len(src) THEN nl ELSE IF CountNL(SubSeq(src, nl + 1, nn - 1)) = 0 THEN nn ELSE nl IN
                  toks' = Append(toks, Tok("CommentToken", pos - 1, SubSeq(src, pos, e - 1))) /\ pos' = e
ScanArg == /\ src[pos] = "#"
           /\ IF IsDecimal(At(src, pos + 1)) THEN toks' = Append(toks, Tok("ArgumentToken", pos - 1, SubSeq(src, pos, pos + 1))) /\ pos' = pos + 2
              ELSE toks' = Append(toks, Tok("SpecialToken", pos - 1, <<"#">>)) /\ pos' = pos + 1
ScanSpecial == /\ ~IsSpace(src[pos]) /\ src[pos] \notin {"%", "#"} /\ SpecCands # {}
               /\ LET w == CHOOSE w \in SpecCands : \A v \in SpecCands : Len(v) <= Len(w) IN
                  toks' = Append(toks, Tok("SpecialToken", pos - 1, w)) /\ pos' = pos + Len(w)
ScanMacro == /\ src[pos] = BS /\ SpecCands = {}
   /\ LET e0 == SkipMac(src, pos + 1)
          e == IF e0 = pos + 1 /\ e0 <= Len(src) THEN e0 + 1 ELSE e0
          mac == SubSeq(src, pos, e - 1) IN
      IF mac = <<BS,"b","e","g","i","n">> THEN
         \* scan_verbatim: \begin, optional white space with at most one line break, {verbatim}
         LET p == SkipSp(src, e) IN
         IF p > Len(src) \/ CountNL(SubSeq(src, pos, p - 1)) > 1 \/ ~StartsAt(src, p, <<"{","v","e","r","b","a","t","i","m","}">>)
         THEN toks' = Append(toks, Tok("BeginToken", pos - 1, mac)) /\ pos' = e
         ELSE LET c == p + 10
                  en == Find(src, c, <<BS,"e","n","d","{","v","e","r","b","a","t","i","m","}">>) IN
              IF en = 0 THEN toks' = Append(toks, Tok("ErrorToken", pos - 1, Mark)) /\ pos' = e
              ELSE toks' = Append(toks, Tok("VerbatimEnv", c - 1, SubSeq(src, c, en - 1))) /\ pos' = en + 14
      ELSE IF mac = <<BS,"e","n","d">> THEN toks' = Append(toks, Tok("EndToken", pos - 1, mac)) /\ pos' = e
      ELSE IF mac = <<BS,"i","t","e","m">> THEN toks' = Append(toks, Tok("ItemToken", pos - 1, mac)) /\ pos' = e
      ELSE IF mac = <<BS,"v","e","r","b">> THEN
         \* scan_verb: delimiter, content up to the same delimiter on the same line
         IF e > Len(src) THEN toks' = Append(toks, Tok("ErrorToken", pos - 1, Mark)) /\ pos' = e
         ELSE LET d == src[e]
                  q == SkipToDelim(src, e + 1, d) IN
              IF q > Len(src) \/ src[q] = NL THEN toks' = Append(toks, Tok("ErrorToken", pos - 1, Mark)) /\ pos' = q
              ELSE toks' = Append(toks, Tok("VerbatimToken", e, SubSeq(src, e + 1, q - 1))) /\ pos' = q + 1
      ELSE IF mac \in Accents THEN toks' = Append(toks, Tok("AccentToken", pos - 1, mac)) /\ pos' = e
      ELSE toks' = Append(toks, Tok("MacroToken", pos - 1, mac)) /\ pos' = e
ScanChar == /\ ~IsSpace(src[pos]) /\ src[pos] \notin {"%", "#", BS} /\ SpecCands = {}
            /\ toks' = Append(toks, Tok("TextToken", pos - 1, <<src[pos]>>)) /\ pos' = pos + 1
Scan == phase = "scan" /\ pos <= Len(src) /\ (ScanSpace \/ ScanComment \/ ScanArg \/ ScanSpecial \/ ScanMacro \/ ScanChar) /\ UNCHANGED <<src, n, phase>>
Done == phase = "scan" /\ pos > Len(src) /\ phase' = "done" /\ UNCHANGED <<src, n, pos, toks>>
Next == (\E k \in 1..Len(Alpha) : Add(k)) \/ Start \/ Scan \/ Done
Spec == Init /\ [][Next]_vars /\ WF_vars(Scan \/ Done)

\* ---- invariants -------------------------------------------------------------
\* every branch consumes at least one character: the scanner terminates
Progress == [][phase = "scan" /\ phase' = "scan" => pos' > pos]_vars
Terminates == (phase = "scan") ~> (phase = "done")
Pinned(t) == t.k \in {"VerbatimToken", "VerbatimEnv", "ErrorToken"}
\* text of a token = the source slice at its offset (error tokens carry the mark)
SliceEq == \A i \in 1..Len(toks) : toks[i].k # "ErrorToken" => SubSeq(src, toks[i].p + 1, toks[i].p + Len(toks[i].t)) = toks[i].t
\* tokens tile the source, except around \verb / verbatim / error tokens
Tile == \A i \in 1..(Len(toks) - 1) : (~Pinned(toks[i]) /\ ~Pinned(toks[i+1])) => toks[i].p + Len(toks[i].t) = toks[i+1].p
TileEnd == phase = "done" /\ toks # <<>> /\ ~Pinned(toks[Len(toks)]) => toks[Len(toks)].p + Len(toks[Len(toks)].t) = Len(src)
\* longest match for special tokens
Longest == \A i \in 1..Len(toks) : toks[i].k = "SpecialToken" /\ toks[i].t # <<"#">> =>
              ~\E w \in Specials : Len(w) > Len(toks[i].t) /\ StartsAt(src, toks[i].p + 1, w)
\* a comment token ends before a blank line
CommentKeepsBlankLine == \A i \in 1..Len(toks) : toks[i].k = "CommentToken" => CountNL(toks[i].t) <= 1
Dump == phase = "done" => PrintT("@@" \o ToJson([src |-> src, toks |-> toks]))
=============================================================================
