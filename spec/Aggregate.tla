----------------------------- MODULE Aggregate -----------------------------
(* LEVEL B model of the shell's aggregation (proofreader.run_proofreader_     *)
(* options, shell/utils.map_match_position): the text parts returned by the   *)
(* filter are submitted one by one, the matches of each part are shifted by   *)
(* the length of what was collected before, parts are joined with a two-      *)
(* character delimiter whose positions repeat the last position, the matches  *)
(* are sorted by position in the LaTeX file and finally mapped to offset and  *)
(* length in the file.                                                        *)
(* The scenario (parts with arbitrary, also non-monotonic position lists, and *)
(* the matches a proofreader returns on them) is built nondeterministically,  *)
(* so TLC checks the invariants for ALL scenarios within the bounds.          *)
EXTENDS AggProps, TLC, Json
CONSTANTS N,          \* length of the LaTeX file (positions 1..N)
          MaxParts, MaxLen, MaxMatches, Emit

VARIABLES phase, parts, cur, ms,         \* scenario under construction: parts = <<[map, ms]>>, cur = map of the part being built
          i, plainLen, cmTot, mTot,      \* aggregation loop
          reported
vars == <<phase, parts, cur, ms, i, plainLen, cmTot, mTot, reported>>
DelimLen == 2

Abs(x) == IF x < 0 THEN -x ELSE x
Init == phase = "build" /\ parts = <<>> /\ cur = <<>> /\ ms = {} /\ i = 1 /\ plainLen = 0 /\ cmTot = <<>> /\ mTot = <<>> /\ reported = <<>>

\* ---- scenario construction -------------------------------------------------
AddChar(p) == phase = "build" /\ Len(parts) < MaxParts /\ Len(cur) < MaxLen /\ ms = {}
              /\ cur' = Append(cur, p) /\ UNCHANGED <<phase, parts, ms, i, plainLen, cmTot, mTot, reported>>
AddMatch(o, n) == phase = "build" /\ cur # <<>> /\ Cardinality(ms) < MaxMatches /\ o + n <= Len(cur) /\ <<o, n>> \notin ms
              /\ (\A m \in ms : <<o, n>> \in {m} \/ TRUE)
              /\ ms' = ms \cup {<<o, n>>} /\ UNCHANGED <<phase, parts, cur, i, plainLen, cmTot, mTot, reported>>
\* matches of a part in the order a proofreader lists them (by offset, then length)
RECURSIVE SeqOf(_)
SeqOf(S) == IF S = {} THEN <<>> ELSE
            LET m == CHOOSE x \in S : \A y \in S : x[1] < y[1] \/ (x[1] = y[1] /\ x[2] <= y[2]) IN <<m>> \o SeqOf(S \ {m})
ClosePart == phase = "build" /\ cur # <<>>
             /\ parts' = Append(parts, [map |-> cur, ms |-> SeqOf(ms)]) /\ cur' = <<>> /\ ms' = {}
             /\ UNCHANGED <<phase, i, plainLen, cmTot, mTot, reported>>
Start == phase = "build" /\ cur = <<>> /\ parts # <<>> /\ phase' = "agg"
         /\ UNCHANGED <<parts, cur, ms, i, plainLen, cmTot, mTot, reported>>

\* ---- the loop over the parts (proofreader.py:96-132) -------------------------
TakePart == phase = "agg" /\ i <= Len(parts)
   /\ LET p == parts[i]
          shifted == [k \in 1..Len(p.ms) |-> [offset |-> p.ms[k][1] + plainLen, length |-> p.ms[k][2], part |-> i, local |-> p.ms[k][1]]] IN
      /\ mTot' = mTot \o shifted
      /\ plainLen' = plainLen + Len(p.map) + DelimLen
      /\ cmTot' = cmTot \o p.map \o [k \in 1..DelimLen |-> p.map[Len(p.map)]]
   /\ i' = i + 1 /\ UNCHANGED <<phase, parts, cur, ms, reported>>
LoopDone == phase = "agg" /\ i > Len(parts) /\ phase' = "sort" /\ UNCHANGED <<parts, cur, ms, i, plainLen, cmTot, mTot, reported>>

\* ---- stable sort by position in the LaTeX file (proofreader.py:134-142) ------
Key(m) == Abs(cmTot[m.offset + 1])
RECURSIVE Insert(_, _)
Insert(s, m) == IF s = <<>> THEN <<m>>
                ELSE IF Key(Head(s)) <= Key(m) THEN <<Head(s)>> \o Insert(Tail(s), m) ELSE <<m>> \o s
RECURSIVE StableSort(_, _)
StableSort(done, rest) == IF rest = <<>> THEN done ELSE StableSort(Insert(done, Head(rest)), Tail(rest))
Sort == phase = "sort" /\ mTot' = StableSort(<<>>, mTot) /\ phase' = "map"
        /\ UNCHANGED <<parts, cur, ms, i, plainLen, cmTot, reported>>

\* ---- map_match_position (shell/utils.py:25-33), one match per step -----------
Clamp(x, hi) == IF x < 0 THEN 0 ELSE IF x > hi THEN hi ELSE x
MapMatch == phase = "map" /\ Len(reported) < Len(mTot)
   /\ LET m == mTot[Len(reported) + 1]
          beg == Clamp(m.offset, Len(cmTot) - 1)
          end == Clamp(beg + m.length - 1, Len(cmTot) - 1)
          off == Abs(cmTot[beg + 1]) - 1
          len == Abs(cmTot[end + 1]) - Abs(cmTot[beg + 1]) + 1 IN
      reported' = Append(reported, [offset |-> off, length |-> len, part |-> m.part, local |-> m.local, plen |-> m.length])
   /\ UNCHANGED <<phase, parts, cur, ms, i, plainLen, cmTot, mTot>>
MapDone == phase = "map" /\ Len(reported) = Len(mTot) /\ phase' = "done"
           /\ UNCHANGED <<parts, cur, ms, i, plainLen, cmTot, mTot, reported>>

Next == (\E p \in 1..N : AddChar(p)) \/ (\E o \in 0..(MaxLen-1), n \in 1..MaxLen : AddMatch(o, n)) \/ ClosePart \/ Start
        \/ TakePart \/ LoopDone \/ Sort \/ MapMatch \/ MapDone
Spec == Init /\ [][Next]_vars

\* ---- what the aggregation has to guarantee (C14 at the level of this model; predicates in AggProps) ---
LockStep == Len(cmTot) = plainLen
ShiftRight == \A k \in 1..Len(mTot) : phase \in {"agg", "sort"} =>
      cmTot[mTot[k].offset + 1] = parts[mTot[k].part].map[mTot[k].local + 1]
ReportedAtWord == P_ReportedAtWord(parts, reported)
Ordered == P_Ordered(reported)
AllReported == phase = "done" => Len(reported) = Len(mTot) /\ P_AllReported(parts, reported)
InFile == P_InFile(N, reported)
Dump == (phase = "done" /\ Emit) => PrintT("@@" \o ToJson([parts |-> parts, reported |-> reported, cm |-> cmTot, plen |-> plainLen]))
=============================================================================
