------------------------------ MODULE ObsFree ------------------------------
(* Trace validation for the totality properties.  One record per real run of *)
(* the filter: {id, doc, srclen, outcome, parts: [{plain, map, unkn}]}.      *)
(*   C07: the run returned (no exception, no hang, no exit), unless the      *)
(*        document is outside the claim (a macro defined in terms of itself) *)
(*   C01: every returned part has a position list of the same length, every  *)
(*        entry inside the source (range claim waived for --unkn parts)      *)
EXTENDS Naturals, Sequences, FiniteSets, TLC, Json, IOUtils
Recs == ndJsonDeserialize(IOEnv.TRACE_FILE)
VARIABLE i
Init == i = 1
Min(S) == CHOOSE x \in S : \A y \in S : x <= y
\* outside the claim of C07 (as for TeX itself): a definition that calls itself.  r.cs[i] is the name of the control sequence
\* the i-th snippet starts with ("" if none).  After a defining macro the same control sequence occurs twice: the first
\* occurrence can be the name being defined, the second its body (\newcommand\phantom\phantom ... \phantom never terminates).
DefNames == {"\\newcommand", "\\renewcommand", "\\def"}
SelfRec(r) == \E a \in 1..Len(r.cs) : r.cs[a] \in DefNames /\
                  \E b, c \in (a+1)..Len(r.cs) : b < c /\ r.cs[b] = r.cs[c] /\ r.cs[b] # ""
C07(r) == IF r.outcome = "returned" THEN "ok"
          ELSE IF r.outcome \in {"hang", "exception:RecursionError"} /\ SelfRec(r) THEN "excluded"
          ELSE r.outcome
PartBad(r, p) == LET pl == r.parts[p].plain mp == r.parts[p].map IN
   IF Len(pl) # Len(mp) THEN "length-text-" \o ToString(Len(pl)) \o "-map-" \o ToString(Len(mp)) \o "@part" \o ToString(p)
   ELSE IF ~r.parts[p].unkn /\ \E x \in 1..Len(mp) : mp[x] < 1 \/ mp[x] > r.srclen
   THEN "entry-" \o ToString(mp[Min({x \in 1..Len(mp) : mp[x] < 1 \/ mp[x] > r.srclen})]) \o "-out-of-range-1.." \o ToString(r.srclen)
        \o "@" \o ToString(Min({x \in 1..Len(mp) : mp[x] < 1 \/ mp[x] > r.srclen})) \o "-part" \o ToString(p)
   ELSE "ok"
C01(r) == IF r.outcome # "returned" THEN "skipped"
          ELSE LET bad == {p \in 1..Len(r.parts) : PartBad(r, p) # "ok"} IN
               IF bad = {} THEN "ok" ELSE PartBad(r, Min(bad))
Next == i <= Len(Recs) /\ i' = i + 1
        /\ PrintT("@V" \o ToJson([id |-> Recs[i].id, bind |-> "ok", c01 |-> C01(Recs[i]), c07 |-> C07(Recs[i])]))
Spec == Init /\ [][Next]_i
=============================================================================
