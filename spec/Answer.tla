------------------------------- MODULE Answer -------------------------------
(* C15: what the shell does with an arbitrary answer of the proofreader.      *)
(* The answer is modelled as the tree of a valid reply; one step applies one  *)
(* mutation (delete a field, change its type, perturb an integer, truncate    *)
(* the byte stream, empty / undecodable answer).  For each output mode the    *)
(* model lists which fields the shell reads and with which type it insists    *)
(* on (the typed accessors json_get of shell.py) - that is the mechanism that *)
(* is meant to make C15 hold.  Predict gives the outcome class:               *)
(*    "report"  exit status 0 and a report                                    *)
(*    "fatal"   the shell's own diagnostic, exit status 1                     *)
(*    "traceback"  an unguarded access - must not exist                       *)
(* TLC checks NoTraceback for every mutation x mode and emits the mutations   *)
(* for replay against the real shell.                                         *)
EXTENDS Naturals, Integers, Sequences, FiniteSets, TLC, Json
CONSTANTS NBytes,            \* length of the valid answer in bytes (for truncation)
          TextLen,           \* length of the submitted text (for offset perturbation)
          FirstOff, LastOff, \* offsets of the first and the last match of the valid answer
          LengthGuarded      \* does the shell read m.length through a typed accessor?  (FALSE = the tree before the fix)

Modes == {"plain", "json", "xml", "xml-b", "html"}
Types == {"null", "bool", "int", "float", "str", "list", "dict"}
\* path -> type in a valid answer   (m = a match; the mutated match is the first or the last one)
TypeOf(p) ==
  CASE p \in {"matches", "m.replacements", "m.rule.urls"} -> "list"
    [] p \in {"m.replacements.0", "m.context", "m.rule", "m.rule.category", "m.rule.urls.0"} -> "dict"
    [] p \in {"m.offset", "m.length", "m.context.offset", "m.context.length"} -> "int"
    [] OTHER -> "str"
Paths == {"matches", "m.message", "m.offset", "m.length", "m.replacements", "m.replacements.0", "m.replacements.0.value",
          "m.context", "m.context.text", "m.context.offset", "m.context.length", "m.rule", "m.rule.id", "m.rule.subId",
          "m.rule.category", "m.rule.category.name", "m.rule.urls", "m.rule.urls.0", "m.rule.urls.0.value"}
IntPaths == {p \in Paths : TypeOf(p) = "int"}
Optional == {"m.rule.subId", "m.rule.urls"}          \* read only if present
Parent(p) == CASE p = "m.replacements.0" -> "m.replacements" [] p = "m.replacements.0.value" -> "m.replacements.0"
               [] p \in {"m.context.text", "m.context.offset", "m.context.length"} -> "m.context"
               [] p \in {"m.rule.id", "m.rule.subId", "m.rule.category", "m.rule.urls"} -> "m.rule"
               [] p = "m.rule.category.name" -> "m.rule.category" [] p = "m.rule.urls.0" -> "m.rule.urls"
               [] p = "m.rule.urls.0.value" -> "m.rule.urls.0" [] OTHER -> "matches"

\* fields read through a typed accessor, per mode  (proofreader.py, gentext.py, genjson.py, genxml.py, genhtml.py)
Common == {"matches", "m.offset"}
Typed(mode) ==
  Common \cup (IF LengthGuarded THEN {"m.length"} ELSE {}) \cup
  CASE mode = "plain" -> {"m.rule", "m.rule.id", "m.rule.subId", "m.message", "m.replacements", "m.replacements.0", "m.replacements.0.value",
                          "m.context", "m.context.text", "m.context.offset", "m.context.length", "m.rule.urls", "m.rule.urls.0", "m.rule.urls.0.value"}
    [] mode = "json" -> {}
    [] mode \in {"xml", "xml-b"} -> {"m.rule", "m.rule.category", "m.rule.category.name", "m.message", "m.replacements", "m.replacements.0",
                          "m.replacements.0.value", "m.context", "m.context.text", "m.context.offset", "m.context.length"}
    [] mode = "html" -> {"m.length", "m.context", "m.context.text", "m.context.offset", "m.context.length", "m.rule", "m.message", "m.rule.id",
                          "m.rule.subId", "m.replacements", "m.replacements.0", "m.replacements.0.value", "m.rule.urls", "m.rule.urls.0", "m.rule.urls.0.value"}
\* fields read without a type check
Raw(mode) == IF ~LengthGuarded /\ mode # "html" THEN {"m.length"} ELSE {}

VARIABLES mut, phase
vars == <<mut, phase>>
NoMut == [kind |-> "none", path |-> "", typ |-> "", val |-> 0, which |-> "first"]
Init == mut = NoMut /\ phase = "pick"
Delete(p, w) == phase = "pick" /\ mut' = [kind |-> "delete", path |-> p, typ |-> "", val |-> 0, which |-> w] /\ phase' = "done"
Retype(p, t, w) == phase = "pick" /\ t # TypeOf(p) /\ mut' = [kind |-> "retype", path |-> p, typ |-> t, val |-> 0, which |-> w] /\ phase' = "done"
\* value of an integer field: -1, 0, last index, length of the text, one more, 2^31
PerturbVals == {"-1", "0", "last", "len", "len+1", "2^31"}
Perturb(p, v, w) == phase = "pick" /\ mut' = [kind |-> "perturb", path |-> p, typ |-> v, val |-> 0, which |-> w] /\ phase' = "done"
\* a string field keeps its type but gets hostile content: empty, a line break, markup characters, very long
Hostile(p, h, w) == phase = "pick" /\ TypeOf(p) = "str" /\ mut' = [kind |-> "hostile", path |-> p, typ |-> h, val |-> 0, which |-> w] /\ phase' = "done"
Truncate(k) == phase = "pick" /\ mut' = [kind |-> "truncate", path |-> "", typ |-> "", val |-> k, which |-> "first"] /\ phase' = "done"
\* a well-formed match anywhere in the submitted text: every offset, lengths 0, 1 and up to the end of the text
Pair(o, n) == phase = "pick" /\ o + n <= TextLen /\ mut' = [kind |-> "pair", path |-> "", typ |-> "", val |-> o * 1000 + n, which |-> "first"] /\ phase' = "done"
Special(s) == phase = "pick" /\ mut' = [kind |-> s, path |-> "", typ |-> "", val |-> 0, which |-> "first"] /\ phase' = "done"
Next == \/ \E p \in Paths, w \in {"first", "last"} : Delete(p, w)
        \/ \E p \in Paths, t \in Types, w \in {"first", "last"} : Retype(p, t, w)
        \/ \E p \in IntPaths, v \in PerturbVals, w \in {"first", "last"} : Perturb(p, v, w)
        \/ \E p \in Paths, h \in {"empty", "newline", "markup", "long"}, w \in {"first", "last"} : Hostile(p, h, w)
        \/ \E k \in 0..(NBytes - 1) : Truncate(k)
        \/ \E o \in 0..(TextLen - 1), n \in {0, 1, 2, TextLen} : Pair(o, IF n = TextLen THEN TextLen - o ELSE n)
        \/ \E s \in {"empty", "not-json", "invalid-utf8", "json-null", "json-list", "matches-empty"} : Special(s)
Spec == Init /\ [][Next]_vars

\* is the mutated field (or a field above it) read in this mode, and how
Chain(p) == {p} \cup (IF p = "matches" THEN {} ELSE {Parent(p)} \cup (IF Parent(p) = "matches" THEN {} ELSE {Parent(Parent(p)), Parent(Parent(Parent(p)))}))
Predict(mode, m) ==
  CASE m.kind = "none" -> "report"
    [] m.kind \in {"truncate", "empty", "not-json", "invalid-utf8", "json-null", "json-list"} -> "fatal"
    [] m.kind \in {"matches-empty", "pair", "hostile"} -> "report"
    [] m.kind = "perturb" ->
         \* the collected position list has TextLen + 2 entries (delimiter padding); offsets are range-checked before sorting,
         \* the HTML generator checks the end of the match as well; everything else is clamped by map_match_position
         LET v == CASE m.typ = "-1" -> -1 [] m.typ = "0" -> 0 [] m.typ = "last" -> TextLen - 1 [] m.typ = "len" -> TextLen
                    [] m.typ = "len+1" -> TextLen + 1 [] OTHER -> 1000000
             cm == TextLen + 2
             beg == IF m.which = "first" THEN FirstOff ELSE LastOff IN
         IF m.path = "m.offset" THEN (IF v < 0 \/ v >= cm THEN "fatal" ELSE IF mode = "html" /\ v + 1 >= cm THEN "fatal" ELSE "report")
         ELSE IF m.path = "m.length" THEN (IF mode = "html" /\ beg + (IF v < 1 THEN 1 ELSE v) >= cm THEN "fatal" ELSE "report")
         ELSE "report"
    [] m.kind \in {"delete", "retype"} ->
         IF m.path \in Raw(mode) THEN "traceback"
         ELSE IF m.kind = "delete" /\ m.path \in {"m.replacements.0", "m.rule.urls.0"} THEN "report"          \* the list is just shorter
         ELSE IF m.kind = "retype" /\ m.typ = "bool" /\ TypeOf(m.path) = "int" THEN "report"                   \* a boolean is an integer for Python
         ELSE IF m.path \in Typed(mode) /\ ~(m.kind = "delete" /\ m.path \in Optional) THEN "fatal"
         ELSE "report"
NoTraceback == phase = "done" => \A mode \in Modes : Predict(mode, mut) \in {"report", "fatal"}
Dump == phase = "done" => PrintT("@@" \o ToJson([mut |-> mut, predict |-> [mode \in Modes |-> Predict(mode, mut)]]))
=============================================================================
