----------------------------- MODULE GenFreePair -----------------------------
(* Focused free-mode generator: any snippet sequence that uses at most        *)
(* MaxSpecial distinct snippets outside the first NBase ones (the harness     *)
(* puts letters, blanks, line breaks, braces, brackets and $ first).          *)
(* Simulated by TLC it lets two or three constructs of the vocabulary meet in *)
(* many arrangements, mixed with delimiters - what uniform sampling over the  *)
(* whole vocabulary almost never forms.                                       *)
EXTENDS GenFree, FiniteSets
CONSTANTS NBase, MaxSpecial
VARIABLE special
pvars == <<vars, special>>
PInit == Init /\ special = {}
PAdd(s) == /\ Add(s)
           /\ IF s <= NBase THEN special' = special
              ELSE (s \in special \/ Cardinality(special) < MaxSpecial) /\ special' = special \cup {s}
PFinish == Finish /\ UNCHANGED special
PNext == (\E s \in Sym : PAdd(s)) \/ PFinish
PSpec == PInit /\ [][PNext]_pvars
=============================================================================
