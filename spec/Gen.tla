-------------------------------- MODULE Gen --------------------------------
(* The document generator as a state machine.  TLC enumerates every          *)
(* well-formed document over the symbol set Sym with at most MaxSym symbols  *)
(* (MaxDepth bounds the nesting), carrying the reference state of module Doc.*)
(* Each finished document is printed as one JSON line (tag @@) for the       *)
(* replay into the implementation.  Invariants check the reference itself.   *)
EXTENDS Doc, Json
CONSTANTS Sym, MaxSym, MaxDepth, Free, Mode
VARIABLES doc, st, phase, nsym
vars == <<doc, st, phase, nsym>>

Init == doc = <<>> /\ st = [St0 EXCEPT !.mode = Mode] /\ phase = "gen" /\ nsym = 0
Add(s) == /\ phase = "gen" /\ nsym < MaxSym
          /\ (Free \/ AllowedSeq(st, Expand(s)))
          /\ (s \in OpenSyms \cup BeginSyms \cup {"skb"} => Len(st.ctx) < MaxDepth)
          /\ doc' = doc \o Expand(s) /\ st' = Run(st, Expand(s)) /\ phase' = phase
          /\ nsym' = nsym + 1
Finish == /\ phase = "gen" /\ doc # <<>> /\ (Free \/ Closed(st))
          /\ phase' = "done" /\ UNCHANGED <<doc, st, nsym>>
Next == (\E s \in Sym : Add(s)) \/ Finish
Spec == Init /\ [][Next]_vars

\* ---- invariants on the reference semantics itself ----
\* the source text is the concatenation of the symbols
SrcIsConc == st.src = ConcAll(doc)
\* every copied character of the expectation stands in the source at its position
AnchorsInSrc == \A f \in 1..Len(st.flows) : \A i \in 1..Len(st.flows[f]) :
    LET e == st.flows[f][i] IN
    /\ (e.t = "c" => e.lo >= 1 /\ e.lo <= Len(st.src) /\ (e.n = 0 => st.src[e.lo] = e.ch))
    /\ (e.t \in {"f", "g"} => 1 <= e.lo /\ e.lo <= e.hi /\ e.hi <= Len(st.src))
\* positions of copied characters increase within a flow
AnchorsOrdered == "umacro" \in st.feat \/ \A f \in 1..Len(st.flows) : \A i, j \in 1..Len(st.flows[f]) :
    (i < j /\ st.flows[f][i].t = "c" /\ st.flows[f][j].t = "c") => st.flows[f][i].lo < st.flows[f][j].lo
\* a finished document has a flattened expectation that keeps every anchor
FinalKeeps == (phase = "done" /\ Mode = "normal") =>
    LET fin == Final(st) IN
    Len(SelectSeq(fin.items, LAMBDA e : e.t = "c")) =
       Len(SelectSeq(st.flows[1], LAMBDA e : e.t = "c")) +
       (IF Len(st.flows) < 2 THEN 0 ELSE
        LET RECURSIVE Cnt(_) Cnt(f) == IF f > Len(st.flows) THEN 0 ELSE (IF f \in st.drop THEN 0 ELSE Len(SelectSeq(st.flows[f], LAMBDA e : e.t = "c"))) + Cnt(f+1) IN Cnt(2))
\* the catalogue's symbol texts, exported once for the harness (one source of truth: Doc!Conc)
Table == (doc = <<>> /\ phase = "gen") => PrintT("@T" \o ToJson([s \in AllSyms |-> Conc(s)]))
Dump == phase = "done" => PrintT("@@" \o ToJson([doc |-> doc, src |-> st.src]))
=============================================================================
