------------------------------- MODULE GenPair -------------------------------
(* Focused generator: a document over the whole symbol set Sym that uses at   *)
(* most MaxSpecial distinct symbols outside Base.  Simulated by TLC, it       *)
(* produces documents in which two (or three) constructs of the catalogue     *)
(* meet in many arrangements - the interactions that uniform sampling over    *)
(* the whole catalogue almost never forms.                                    *)
EXTENDS Gen, FiniteSets
CONSTANTS Base, MaxSpecial
VARIABLE special
pvars == <<vars, special>>
PInit == Init /\ special = {}
PAdd(s) == /\ Add(s)
           /\ IF s \in Base THEN special' = special
              ELSE (s \in special \/ Cardinality(special) < MaxSpecial) /\ special' = special \cup {s}
PFinish == Finish /\ UNCHANGED special
PNext == (\E s \in Sym : PAdd(s)) \/ PFinish
PSpec == PInit /\ [][PNext]_pvars
PDump == phase = "done" => PrintT("@@" \o ToJson([doc |-> doc, src |-> st.src, special |-> special]))
=============================================================================
