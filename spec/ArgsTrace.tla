------------------------------- MODULE ArgsTrace -------------------------------
(* Trace validation of the real Parser.expand_arguments / arg_buffer against Args.tla, reusing its actions.               *)
(* Record: {id, toks, codes, args, delims, rest} - what the real code collected for the token buffer toks and the        *)
(* argument codes of the macro.  The model collects from the same buffer; the results must agree, and the mechanism      *)
(* invariants of Args.tla are evaluated on the REAL result as well.                                                      *)
EXTENDS Args, IOUtils
Recs == ndJsonDeserialize(IOEnv.TRACE_FILE)
VARIABLE r
tvars == <<vars, r>>
LoadT(k) == IF k <= Len(Recs) THEN Recs[k].toks ELSE <<>>
LoadC(k) == IF k <= Len(Recs) THEN Recs[k].codes ELSE <<"A">>
TInit == r = 1 /\ buf = LoadT(1) /\ codes = LoadC(1) /\ phase = "run" /\ n = 1 /\ args = <<>> /\ delims = <<>> /\ pos = 0 /\ orig = LoadT(1) /\ recovered = 0
TRun == r <= Len(Recs) /\ (Step \/ Finish) /\ r' = r
RealNonEmpty(rec) == \A k \in 1..Len(rec.args) : (rec.codes[k] = "A" \/ rec.delims[k]) => rec.args[k] # <<>>
RealTextKept(rec) == \A x \in 1..Len(rec.toks) : rec.toks[x].k \in {"a", "par"} =>
      (\E k \in 1..Len(rec.args) : \E y \in 1..Len(rec.args[k]) : rec.args[k][y] = rec.toks[x]) \/ (\E y \in 1..Len(rec.rest) : rec.rest[y] = rec.toks[x])
Judge(rec) == [id |-> rec.id, bind |-> "ok",
   mech |-> IF ~RealNonEmpty(rec) THEN "an-argument-list-is-empty" ELSE IF ~RealTextKept(rec) THEN "a-text-token-is-neither-in-an-argument-nor-left-in-the-input" ELSE "ok",
   drift |-> IF rec.args = args /\ rec.delims = delims /\ rec.rest = buf THEN "none" ELSE "collected-arguments-differ-from-Args.tla"]
TNext == /\ r <= Len(Recs) /\ phase = "done"
         /\ PrintT("@V" \o ToJson(Judge(Recs[r])))
         /\ r' = r + 1 /\ buf' = LoadT(r + 1) /\ codes' = LoadC(r + 1) /\ phase' = "run" /\ n' = 1 /\ args' = <<>> /\ delims' = <<>> /\ pos' = 0
         /\ orig' = LoadT(r + 1) /\ recovered' = 0
TSpec == TInit /\ [][TRun \/ TNext]_tvars
=============================================================================
