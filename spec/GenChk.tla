------------------------------- MODULE GenChk -------------------------------
(* all plain texts of at most MaxSym symbols over the alphabet of C20 (a      *)
(* placeholder counts as one symbol), for the harness to run through the      *)
(* shell's checks; invariants state what the declarative definitions promise. *)
EXTENDS Checks, Json
CONSTANTS MaxSym, NAlpha
PhI == <<"B","-","B","-","B">>      \* an inline placeholder
PhD == <<"U","-","U","-","U">>      \* a displayed one
Alpha == SubSeq(<< <<"a">>, <<" ">>, PhI, <<".">>, <<"B">>, <<NL>>, <<",">>, PhD, <<"U+00E9">>, <<"1">>, <<"_">>, <<NBSP>>, <<NNBSP>>, <<"-">>, <<"b">>, <<TAB>> >>, 1, NAlpha)
VARIABLES txt, n, phase
vars == <<txt, n, phase>>
Init == txt = <<>> /\ n = 0 /\ phase = "gen"
Add(k) == phase = "gen" /\ n < MaxSym /\ txt' = txt \o Alpha[k] /\ n' = n + 1 /\ phase' = phase
Finish == phase = "gen" /\ n > 0 /\ phase' = "done" /\ UNCHANGED <<txt, n>>
Next == (\E k \in 1..Len(Alpha) : Add(k)) \/ Finish
Spec == Init /\ [][Next]_vars
Repls == <<PhI, PhD>>
\* every reported letter is a letter, isolated; with the placeholders accepted no letter of a placeholder is reported
LettersSane == \A i \in SingleLetters(txt, <<>>) : IsLetter(txt[i])
Occ == {j \in 1..Len(txt) : (LitAt(txt, j, PhI) \/ LitAt(txt, j, PhD)) /\ Bnd(txt, j) /\ Bnd(txt, j+5)}
\* (TLC found the counterexample B-B-B-B to the unrestricted version: occurrences may overlap, the scan is non-overlapping)
PlaceholdersAccepted == (\A j, k \in Occ : j < k => j + 5 <= k) =>
   \A i \in SingleLetters(txt, <<"B","-","B","-","B","|","U","-","U","-","U">>) : ~\E j \in Occ : j <= i /\ i < j + 5
\* every equation message starts at a placeholder and stays inside the text; messages are disjoint and ordered
EquSane == LET ms == EquMsgs(txt, 1, Repls) IN
   /\ \A k \in 1..Len(ms) : EquAt(txt, ms[k][1] + 1, Repls) /\ ms[k][2] >= 5 /\ ms[k][1] + ms[k][2] <= Len(txt)
   /\ \A k \in 1..Len(ms)-1 : ms[k][1] + ms[k][2] <= ms[k+1][1]
Dump == phase = "done" => PrintT("@@" \o ToJson([txt |-> txt]))
=============================================================================
