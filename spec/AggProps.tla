------------------------------ MODULE AggProps ------------------------------
(* C14 at the level of the aggregation: what the (shifted, sorted, mapped)    *)
(* matches have to satisfy, as predicates over parts and reported matches.    *)
(* parts: <<[map, ms]>>, reported: <<[offset, length, part, local, plen]>>    *)
EXTENDS Naturals, Integers, Sequences, FiniteSets
\* every reported match is reported at the position of the flagged characters in the file
P_ReportedAtWord(parts, reported) == \A k \in 1..Len(reported) :
      LET r == reported[k] p == parts[r.part].map IN
      /\ r.offset = p[r.local + 1] - 1
      /\ r.length = p[r.local + r.plen] - p[r.local + 1] + 1
\* messages are ordered by position in the file
P_Ordered(reported) == \A k \in 1..(Len(reported) - 1) : reported[k].offset <= reported[k+1].offset
\* no match is lost or duplicated
P_AllReported(parts, reported) ==
      \A q \in 1..Len(parts) : \A x \in 1..Len(parts[q].ms) :
            Cardinality({k \in 1..Len(reported) : reported[k].part = q /\ reported[k].local = parts[q].ms[x][1] /\ reported[k].plen = parts[q].ms[x][2]}) = 1
\* locations inside the file
P_InFile(n, reported) == \A k \in 1..Len(reported) : reported[k].offset >= 0 /\ reported[k].offset < n
=============================================================================
