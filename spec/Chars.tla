------------------------------- MODULE Chars -------------------------------
(* Characters are one-element strings.  Characters that are awkward in TLA+  *)
(* source or in TLC's output are written symbolically: "NL", "TAB" and        *)
(* "U+XXXX" for every non-ASCII code point (harness/chars.py is the other     *)
(* half of the table).  Text is a sequence of such characters.                *)
EXTENDS Naturals, Sequences

NL    == "NL"
TAB   == "TAB"
NBSP  == "U+00A0"     \* no-break space          (~)
NNBSP == "U+202F"     \* narrow no-break space   (\,)
ENDASH == "U+2013"
EMDASH == "U+2014"
LDQ   == "U+201C"     \* left double quotation mark  (``)
RDQ   == "U+201D"     \* right double quotation mark ('')
BS    == "\\"

\* Python's str.isspace() on the model alphabet (NBSP and NNBSP are spaces for
\* Python, and remove_pure_action_lines / str.strip depend on that)
SpaceChars == {" ", NL, TAB, NBSP, NNBSP, "U+000B", "U+000C", "CR"}
IsSpace(c) == c \in SpaceChars

LowerChars == {"a","b","c","d","e","f","g","h","i","j","k","l","m","n","o","p","q","r","s","t","u","v","w","x","y","z"}
UpperChars == {"A","B","C","D","E","F","G","H","I","J","K","L","M","N","O","P","Q","R","S","T","U","V","W","X","Y","Z"}
DigitChars == {"0","1","2","3","4","5","6","7","8","9"}
IsAsciiLetter(c) == c \in LowerChars \cup UpperChars
IsMacroChar(c) == IsAsciiLetter(c) \/ c = "@"      \* Parameters.macro_character
IsDecimal(c) == c \in DigitChars

CountNL(s) == Len(SelectSeq(s, LAMBDA c : c = NL))
AllSpace(s) == \A i \in 1..Len(s) : IsSpace(s[i])

\* class of a pure white-space string as a separator between two words
\*   "glue" (empty), "blank" (white space without blank line), "par" (contains
\*   a blank line: two line breaks with only blanks/tabs between them)
RECURSIVE HasBlankLine(_, _, _)
HasBlankLine(s, i, seenNL) ==
   IF i > Len(s) THEN FALSE
   ELSE IF s[i] = NL THEN (IF seenNL THEN TRUE ELSE HasBlankLine(s, i+1, TRUE))
   ELSE IF IsSpace(s[i]) THEN HasBlankLine(s, i+1, seenNL)
   ELSE HasBlankLine(s, i+1, FALSE)
SepClass(s) == IF s = <<>> THEN "glue" ELSE IF HasBlankLine(s, 1, FALSE) THEN "par" ELSE "blank"

\* 1-based line and column of the 0-based offset p in text s
LineOf(s, p) == 1 + Len(SelectSeq(SubSeq(s, 1, p), LAMBDA c : c = NL))
RECURSIVE LastNLBefore(_, _)
LastNLBefore(s, p) == IF p = 0 THEN 0 ELSE IF s[p] = NL THEN p ELSE LastNLBefore(s, p-1)
ColOf(s, p) == p - LastNLBefore(s, p) + 1
=============================================================================
