----------------------------- MODULE LinesMachine -----------------------------
(* LEVEL B: parser.remove_pure_action_lines as the work-stack machine the     *)
(* code implements (sentinel tokens, can_start / can_end / is_blank, the      *)
(* shortening of the first and last token of a removed line with the position *)
(* shift of the latter), checked by TLC against the declarative Lines!RefOut  *)
(* for ALL token lists over a small token alphabet up to a length bound       *)
(* (refinement  machine => declarative rule).                                 *)
EXTENDS Lines
CONSTANTS MaxToks,
          OldShift      \* TRUE: the design before fix a1434e9 (the position of a shortened token is advanced even if it is fixed)
VARIABLES toks, off, phase, work, lout
vars == <<toks, off, phase, work, lout>>

Tk(k, p, t, f) == [k |-> k, p |-> p, t |-> t, f |-> f]
\* the token alphabet: text to append, class, fixed?
Alphabet == { <<"TextToken", <<"a">>, FALSE>>, <<"SpaceToken", <<" ">>, FALSE>>, <<"SpaceToken", <<NL>>, FALSE>>,
              <<"SpaceToken", <<NL, " ">>, FALSE>>, <<"ParagraphToken", <<NL, NL>>, FALSE>>, <<"ActionToken", <<>>, FALSE>>,
              <<"LanguageToken", <<>>, FALSE>>, <<"SpaceToken", <<" ">>, TRUE>>, <<"ParagraphToken", <<NL, NL>>, TRUE>>,
              <<"TextToken", <<"a", NL, "a">>, FALSE>>, <<"SpaceToken", <<NBSP>>, FALSE>>, <<"VoidToken", <<>>, FALSE>> }
Init == toks = <<>> /\ off = 0 /\ phase = "build" /\ work = <<>> /\ lout = <<>>
Add(a) == /\ phase = "build" /\ Len(toks) < MaxToks
          /\ toks' = Append(toks, Tk(a[1], off, a[2], a[3]))
          /\ off' = off + (IF a[3] \/ a[2] = <<>> THEN 1 ELSE Len(a[2]))
          /\ UNCHANGED <<phase, work, lout>>

HasNL(s) == \E i \in 1..Len(s) : s[i] = NL
FirstNL(s) == CHOOSE i \in 1..Len(s) : s[i] = NL /\ \A j \in 1..(i-1) : s[j] # NL
LastNL(s) == CHOOSE i \in 1..Len(s) : s[i] = NL /\ \A j \in (i+1)..Len(s) : s[j] # NL
IsBlank(t) == IF t.k = "ActionToken" THEN TRUE ELSE ~HasNL(t.t) /\ AllSpace(t.t)
CanStartT(t) == IF t.k = "ActionToken" THEN FALSE ELSE HasNL(t.t) /\ AllSpace(SubSeq(t.t, LastNL(t.t), Len(t.t)))
CanEndT(t) == IF t.k = "ActionToken" THEN FALSE ELSE HasNL(t.t) /\ AllSpace(SubSeq(t.t, 1, FirstNL(t.t)))
\* work entries: [t, force (sentinel), cs (a sentinel that can start; otherwise it can end)]
CanStart(e) == IF e.force THEN e.cs ELSE CanStartT(e.t)
CanEnd(e) == IF e.force THEN ~e.cs ELSE CanEndT(e.t)
Blank(e) == IF e.force THEN TRUE ELSE IsBlank(e.t)
\* line 533-541: drop empty tokens (except action / language), add the sentinels
Start == /\ phase = "build" /\ toks # <<>>
         /\ LET kept == SelectSeq(toks, LAMBDA t : t.t # <<>> \/ t.k \in {"ActionToken", "LanguageToken"})
                lastpos == IF kept = <<>> THEN 0 ELSE kept[Len(kept)].p IN
            work' = <<[t |-> Tk("TextToken", 0, <<>>, FALSE), force |-> TRUE, cs |-> TRUE]>>
                    \o [i \in 1..Len(kept) |-> [t |-> kept[i], force |-> FALSE, cs |-> FALSE]]
                    \o <<[t |-> Tk("TextToken", lastpos, <<>>, FALSE), force |-> TRUE, cs |-> FALSE]>>
         /\ phase' = "run" /\ lout' = <<>> /\ UNCHANGED <<toks, off>>
\* inner loop (553-560): collect tokens until one can end a line or is not blank
RECURSIVE Inner(_, _)
Inner(w, b) == IF w = <<>> THEN [w |-> w, b |-> b, rem |-> TRUE]
   ELSE LET e == Head(w) b1 == Append(b, e) IN
        IF CanEnd(e) THEN [w |-> Tail(w), b |-> b1, rem |-> TRUE]
        ELSE IF ~Blank(e) THEN [w |-> Tail(w), b |-> b1, rem |-> FALSE]
        ELSE Inner(Tail(w), b1)
\* one iteration of the outer loop (546-589)
Step == /\ phase = "run" /\ work # <<>>
   /\ (LET e == Head(work) IN
      IF ~CanStart(e) THEN lout' = Append(lout, e.t) /\ work' = Tail(work)
      ELSE LET r == Inner(Tail(work), <<e>>) b == r.b IN
           IF r.rem /\ Len(b) > 1 /\ \E i \in 1..Len(b) : b[i].t.k = "ActionToken" THEN
              LET t1 == b[1].t   t2 == b[Len(b)].t
                  t1n == [t1 EXCEPT !.t = IF HasNL(t1.t) THEN SubSeq(t1.t, 1, LastNL(t1.t)) ELSE <<>>]
                  cut == IF HasNL(t2.t) THEN FirstNL(t2.t) ELSE Len(t2.t)
                  t2n == [t2 EXCEPT !.t = SubSeq(t2.t, cut + 1, Len(t2.t)), !.p = IF t2.f /\ ~OldShift THEN t2.p ELSE t2.p + cut]
                  langs == SelectSeq([i \in 1..Len(b) |-> b[i].t], LAMBDA t : t.k = "LanguageToken")
                  e2 == [t |-> t2n, force |-> b[Len(b)].force, cs |-> FALSE]
              IN /\ lout' = lout \o <<t1n>> \o langs
                 /\ work' = << [t |-> Tk("TextToken", t2n.p, <<>>, FALSE), force |-> TRUE, cs |-> TRUE], e2 >> \o r.w
           ELSE IF Len(b) > 1 THEN
              /\ lout' = lout \o [i \in 1..(Len(b)-1) |-> b[i].t]
              /\ work' = << b[Len(b)] >> \o r.w
           ELSE lout' = lout \o <<b[1].t>> /\ work' = r.w)
   /\ UNCHANGED <<toks, off, phase>>
Finish == phase = "run" /\ work = <<>> /\ phase' = "done" /\ UNCHANGED <<toks, off, work, lout>>
Next == (\E a \in Alphabet : Add(a)) \/ Start \/ Step \/ Finish
Spec == Init /\ [][Next]_vars /\ WF_vars(Step \/ Finish)

Result == SelectSeq(lout, LAMBDA t : t.t # <<>> \/ t.k = "LanguageToken")
\* ---- refinement: the machine computes what the declarative rule says (text and positions) ----
\* (a token with fixed position keeps it when it is shortened: all its characters stand for one place of the source)
Refines == phase = "done" => Chars(SelectSeq(Flat(Result), LAMBDA e : e.c # "ACT")) = Chars(RefOut(toks))
RefinesPos == phase = "done" => SelectSeq(Flat(Result), LAMBDA e : e.c # "ACT") = RefOut(toks)
\* the work list shrinks or the output grows: termination
Terminates == (phase = "run") ~> (phase = "done")
=============================================================================
