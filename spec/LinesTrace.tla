------------------------------ MODULE LinesTrace ------------------------------
(* trace validation of Parser.remove_pure_action_lines, recorded by the hook  *)
(* (YALAFI_VERIF=1): record {id, inp: [token], out: [token]}                  *)
EXTENDS Lines, Json, IOUtils
Recs == ndJsonDeserialize(IOEnv.TRACE_FILE)
VARIABLE cur
Init == cur = 1
Next == cur <= Len(Recs) /\ cur' = cur + 1
        /\ PrintT("@V" \o ToJson([id |-> Recs[cur].id, bind |-> "ok", lines |-> Judge(Recs[cur].inp, Recs[cur].out)]))
Spec == Init /\ [][Next]_cur
=============================================================================
