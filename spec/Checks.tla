------------------------------- MODULE Checks -------------------------------
(* C20: the shell's own checks (--single-letters, --equation-punctuation),   *)
(* declaratively.  Text = sequence of characters, offsets 0-based as in the  *)
(* messages.                                                                 *)
EXTENDS Chars, Naturals, Sequences, FiniteSets, TLC

IsLetter(c) == IsAsciiLetter(c) \/ c \in {"U+00E9", "U+00C4"}          \* [^\W0-9_] on the model alphabet (é, Ä)
IsLower(c) == c \in LowerChars \/ c = "U+00E9"
IsWordCh(c) == IsLetter(c) \/ IsDecimal(c) \/ c = "_"                    \* \w
At(t, i) == IF i >= 1 /\ i <= Len(t) THEN t[i] ELSE "EOT"
Bnd(t, i) == IsWordCh(At(t, i-1)) # IsWordCh(At(t, i))                   \* \b before the character with index i
LitAt(t, i, w) == i + Len(w) - 1 <= Len(t) /\ \A k \in 1..Len(w) : t[i+k-1] = w[k]

(***************************************************************************)
(* accepted patterns of --single-letters: split at |, ~ and \, converted,   *)
(* word boundary where the pattern begins / ends with a letter              *)
(***************************************************************************)
RECURSIVE SplitBar(_, _, _)
SplitBar(s, i, cur) == IF i > Len(s) THEN <<cur>> ELSE IF s[i] = "|" THEN <<cur>> \o SplitBar(s, i+1, <<>>) ELSE SplitBar(s, i+1, Append(cur, s[i]))
RECURSIVE Conv(_)
Conv(s) == IF s = <<>> THEN <<>>
           ELSE IF s[1] = "~" THEN <<NBSP>> \o Conv(Tail(s))
           ELSE IF Len(s) >= 2 /\ s[1] = BS /\ s[2] = "," THEN <<NNBSP>> \o Conv(SubSeq(s, 3, Len(s)))
           ELSE <<s[1]>> \o Conv(Tail(s))
Patterns(acc) == LET ps == SplitBar(acc, 1, <<>>) IN
                 [k \in 1..Len(SelectSeq(ps, LAMBDA p : p # <<>>)) |-> Conv(SelectSeq(ps, LAMBDA p : p # <<>>)[k])]
PatAt(t, i, p) == /\ LitAt(t, i, p)
                  /\ (IsLetter(p[1]) => Bnd(t, i))
                  /\ (IsLetter(p[Len(p)]) => Bnd(t, i + Len(p)))
\* hits of the alternation, scanned left to right, first alternative first, non-overlapping
RECURSIVE Hits(_, _, _)
Hits(t, i, ps) ==
  IF i > Len(t) \/ ps = <<>> THEN {}
  ELSE LET K == {k \in 1..Len(ps) : PatAt(t, i, ps[k])} IN
       IF K = {} THEN Hits(t, i+1, ps)
       ELSE LET k == CHOOSE k \in K : \A m \in K : k <= m IN {<<i, i + Len(ps[k])>>} \cup Hits(t, i + Len(ps[k]), ps)
Covered(t, i, hs) == \E h \in hs : h[1] <= i /\ i < h[2]
\* the isolated letters that have to be reported: 1-based indices
SingleLetters(t, acc) ==
  LET hs == Hits(t, 1, Patterns(acc)) IN
  {i \in 1..Len(t) : IsLetter(t[i]) /\ ~IsWordCh(At(t, i-1)) /\ ~IsWordCh(At(t, i+1)) /\ ~Covered(t, i, hs)}

(***************************************************************************)
(* equation punctuation                                                    *)
(***************************************************************************)
EquAt(t, i, repls) == \E k \in 1..Len(repls) : LitAt(t, i, repls[k]) /\ Bnd(t, i) /\ Bnd(t, i + Len(repls[k]))
EquLen(t, i, repls) == Len(repls[CHOOSE k \in 1..Len(repls) : LitAt(t, i, repls[k])])
RECURSIVE SkipWs(_, _)
SkipWs(t, i) == IF i <= Len(t) /\ IsSpace(t[i]) THEN SkipWs(t, i+1) ELSE i
RECURSIVE LettersEnd(_, _)
LettersEnd(t, i) == IF i <= Len(t) /\ IsLetter(t[i]) THEN LettersEnd(t, i+1) ELSE i
\* for a placeholder at i (ending before e): [ok, end] as the scan of the statement:
\*   ok if another placeholder follows (after optional , ; :), or a full stop, or a lower-case word (after optional , ; :)
EquJudge(t, i, repls) ==
  LET e == i + EquLen(t, i, repls)
      j == SkipWs(t, e)
      k == IF At(t, j) \in {",", ";", ":"} THEN j + 1 ELSE j
      k2 == SkipWs(t, k)
      w == LettersEnd(t, k2)
      j2 == IF At(t, j) \in {",", ";", ":"} THEN j ELSE j     \* without punctuation the word may follow directly
      w0 == LettersEnd(t, j) IN
  IF EquAt(t, k2, repls) THEN [ok |-> TRUE, end |-> e]
  ELSE IF At(t, j) = "." THEN [ok |-> TRUE, end |-> j + 1]
  ELSE IF w > k2 THEN [ok |-> IsLower(t[k2]), end |-> w]
  ELSE [ok |-> FALSE, end |-> j]
RECURSIVE EquMsgs(_, _, _)
EquMsgs(t, i, repls) ==     \* sequence of <<offset (0-based), length>> in text order
  IF i > Len(t) THEN <<>>
  ELSE IF ~EquAt(t, i, repls) THEN EquMsgs(t, i+1, repls)
  ELSE LET r == EquJudge(t, i, repls) IN
       (IF r.ok THEN <<>> ELSE << <<i-1, r.end - i>> >>) \o EquMsgs(t, IF r.end > i THEN r.end ELSE i+1, repls)

(***************************************************************************)
(* context excerpt                                                         *)
(***************************************************************************)
Blanked(c) == IF c \in {NL, TAB} THEN " " ELSE c
CtxOk(t, off, len, ctext, coff, clen) ==
  \* the excerpt marks the same characters (line breaks and tabs shown as blanks) whenever the span fits the window
  len > 45 \/ off + len > Len(t) \/
  ( clen = len /\ coff >= 0 /\ coff + len <= Len(ctext) /\ \A k \in 1..len : ctext[coff + k] = Blanked(t[off + k]) )
=============================================================================
