------------------------------- MODULE ObsML -------------------------------
(* C12: trace validation of multi-language observations.  Record:            *)
(*  {id, doc, src, mainlang, thresh,                                         *)
(*   parts: [{lang, plain, map}] (as returned, in order),                    *)
(*   single: {plain, map} (the same document in single-language mode)}       *)
EXTENDS Doc, Json, IOUtils
Recs == ndJsonDeserialize(IOEnv.TRACE_FILE)
VARIABLE cur
Init == cur = 1
Min(S) == CHOOSE x \in S : \A y \in S : x <= y
Max(S) == CHOOSE x \in S : \A y \in S : y <= x
LangKey2(lang) == IF lang = "ru-RU" THEN "ru" ELSE "en"
PhLangKey(lang) == IF lang = "de-DE" THEN "de" ELSE "en"       \* placeholders: ru differs, not used here
LangColl == <<Ph("K"), Ph("L"), Ph("M"), Ph("N")>>
Res(r, lg) == IF lg = "MAIN" THEN r.mainlang ELSE lg

MaxL(r) == IF Len(r.parts) = 0 THEN 0 ELSE Max({Len(r.parts[p].plain) : p \in 1..Len(r.parts)})
Occ(r, ch, pos) == {pj \in {<<p, j>> : p \in 1..Len(r.parts), j \in 1..MaxL(r)} :
                       pj[2] <= Len(r.parts[pj[1]].plain) /\ r.parts[pj[1]].plain[pj[2]] = ch /\ r.parts[pj[1]].map[pj[2]] = pos}
Cs(exp) == SelectSeq(exp.items, LAMBDA e : e.t = "c" /\ ~IsSpace(e.ch))

\* (a) every word character in exactly one part, of the language in force
Assign(r, exp) ==
  LET cs == Cs(exp)
      bad == {m \in 1..Len(cs) : Cardinality(Occ(r, cs[m].ch, cs[m].lo)) # 1}
      mis == {m \in 1..Len(cs) : Cardinality(Occ(r, cs[m].ch, cs[m].lo)) = 1
                 /\ r.parts[(CHOOSE pj \in Occ(r, cs[m].ch, cs[m].lo) : TRUE)[1]].lang # Res(r, cs[m].lg)} IN
  IF bad # {} THEN (IF Occ(r, cs[Min(bad)].ch, cs[Min(bad)].lo) = {} THEN "word-character-missing:" ELSE "word-character-in-several-parts:")
                    \o cs[Min(bad)].ch \o "@" \o ToString(cs[Min(bad)].lo)
  ELSE IF mis # {} THEN "part-labelled-" \o r.parts[(CHOOSE pj \in Occ(r, cs[Min(mis)].ch, cs[Min(mis)].lo) : TRUE)[1]].lang
                         \o "-expected-" \o Res(r, cs[Min(mis)].lg) \o ":" \o cs[Min(mis)].ch \o "@" \o ToString(cs[Min(mis)].lo)
  ELSE "ok"

\* (b) short insertions inside a sentence become one placeholder in the same part; long ones end the part
PartOf(r, e) == (CHOOSE pj \in Occ(r, e.ch, e.lo) : TRUE)
Insertion(r, exp, k) ==
  LET ins == exp.ins[k]
      cs == Cs(exp)
      inside == {m \in 1..Len(cs) : ins.lo <= cs[m].lo /\ cs[m].lo <= ins.hi} IN
  IF ~ins.simple \/ ins.kind # "lang" \/ ins.depth # 1 \/ ins.words = 0 \/ inside = {} \/ ins.lang = ins.outer THEN "ok"
  ELSE LET a == Min(inside) - 1
           b == Max(inside) + 1 IN
    IF a < 1 \/ b > Len(cs) \/ cs[a].lg # ins.outer \/ cs[b].lg # ins.outer \/ cs[a].lo > ins.lo \/ cs[b].lo < ins.hi THEN "ok"     \* not inside a sentence of the surrounding language
    ELSE LET pa == PartOf(r, cs[a])
             pb == PartOf(r, cs[b]) IN
      IF ins.words <= r.thresh THEN
         IF pa[1] # pb[1] THEN "short-insertion-ends-the-part@" \o ToString(ins.lo)
         ELSE LET pl == r.parts[pa[1]].plain
                  mp == r.parts[pa[1]].map
                  between == {j \in (pa[2]+1)..(pb[2]-1) : ~IsSpace(pl[j])} IN
              IF between = {} \/ between # Min(between)..Max(between) THEN "short-insertion-without-placeholder@" \o ToString(ins.lo)
              ELSE IF IndexIn(LangColl, [i \in 1..Cardinality(between) |-> pl[Min(between) + i - 1]]) = 0 THEN "short-insertion-not-one-placeholder@" \o ToString(ins.lo)
              ELSE IF \E j \in between : mp[j] < ins.lo \/ mp[j] > ins.hi THEN "placeholder-maps-outside-insertion@" \o ToString(ins.lo)
              ELSE "ok"
      ELSE IF pa[1] = pb[1] THEN "long-insertion-does-not-end-the-part@" \o ToString(ins.lo)
      ELSE "ok"
Insertions(r, exp) ==
  LET bad == {k \in 1..Len(exp.ins) : Insertion(r, exp, k) # "ok"} IN
  IF bad = {} THEN "ok" ELSE Insertion(r, exp, Min(bad))

\* (c) together the parts hold what the single-language run holds (placeholders for insertions aside)
Pairs(plain, map) == {<<plain[j], map[j]>> : j \in {j \in 1..Len(plain) : ~IsSpace(plain[j])}}
Count(plain, map, pr) == Cardinality({j \in 1..Len(plain) : plain[j] = pr[1] /\ map[j] = pr[2]})
RECURSIVE SumParts(_, _, _)
SumParts(r, pr, p) == IF p > Len(r.parts) THEN 0 ELSE Count(r.parts[p].plain, r.parts[p].map, pr) + SumParts(r, pr, p+1)
Conserve(r, exp) ==
  LET sp == Pairs(r.single.plain, r.single.map)
      mp == UNION {Pairs(r.parts[p].plain, r.parts[p].map) : p \in 1..Len(r.parts)}
      InIns(pr) == \E k \in 1..Len(exp.ins) : exp.ins[k].lo <= pr[2] /\ pr[2] <= exp.ins[k].hi
      lost == {pr \in sp : SumParts(r, pr, 1) < Count(r.single.plain, r.single.map, pr)}
      added == {pr \in mp : SumParts(r, pr, 1) > Count(r.single.plain, r.single.map, pr)
                   /\ ~(pr[1] \in {"K","L","M","N","-"} /\ InIns(pr))} IN
  IF lost # {} THEN "text-of-single-language-run-missing:" \o (CHOOSE pr \in lost : TRUE)[1]
  ELSE IF added # {} THEN "text-not-in-single-language-run:" \o (CHOOSE pr \in added : TRUE)[1]
  ELSE "ok"

\* C10 in multi-language mode: the formulas of one language receive successive placeholders of that language's collection
FmlPh(r, f) ==     \* index (1..6) of the placeholder that stands for formula f in whatever part it is, 0 if none
  LET hits == {pj \in {<<p, j>> : p \in 1..Len(r.parts), j \in 1..MaxL(r)} :
                  pj[2] + 4 <= Len(r.parts[pj[1]].plain)
                  /\ IndexIn(InlineColl(LangKey2(Res(r, f.lg))), SubSeq(r.parts[pj[1]].plain, pj[2], pj[2]+4)) # 0
                  /\ \A i \in 0..4 : f.lo <= r.parts[pj[1]].map[pj[2]+i] /\ r.parts[pj[1]].map[pj[2]+i] <= f.hi} IN
  IF Cardinality(hits) # 1 THEN 0
  ELSE LET pj == CHOOSE h \in hits : TRUE IN IndexIn(InlineColl(LangKey2(Res(r, f.lg))), SubSeq(r.parts[pj[1]].plain, pj[2], pj[2]+4))
RECURSIVE RotWalk(_, _, _, _)
RotWalk(r, fml, k, prev) ==      \* prev: language -> index of the previous placeholder (0 = none yet)
  IF k > Len(fml) THEN "ok"
  ELSE LET ix == FmlPh(r, fml[k])
           lg == Res(r, fml[k].lg) IN
       IF ix = 0 THEN "formula-" \o ToString(k) \o "-not-exactly-one-placeholder-of-its-language"
       ELSE IF lg \in DOMAIN prev /\ ix # (prev[lg] % 6) + 1 THEN "formula-" \o ToString(k) \o "-placeholder-not-successor-of-previous-in-" \o lg
       ELSE RotWalk(r, fml, k+1, [l \in (DOMAIN prev) \cup {lg} |-> IF l = lg THEN ix ELSE prev[l]])
PartsSane(r) == \A p \in 1..Len(r.parts) : Len(r.parts[p].plain) = Len(r.parts[p].map)
Judge(r) ==
  LET exp == Ref(r.doc) IN
  IF exp.src # r.src THEN [id |-> r.id, bind |-> "source-text-differs-from-document"]
  ELSE IF ~PartsSane(r) THEN [id |-> r.id, bind |-> "ok", c12 |-> "text-and-position-list-of-a-part-differ-in-length"]
  ELSE LET a == Assign(r, exp) IN
       [id |-> r.id, bind |-> "ok", feat |-> exp.feat,
        c10 |-> RotWalk(r, exp.fml, 1, <<>>),
        c12 |-> IF a # "ok" THEN a ELSE LET b == Insertions(r, exp) IN IF b # "ok" THEN b ELSE Conserve(r, exp)]
Next == cur <= Len(Recs) /\ cur' = cur + 1 /\ PrintT("@V" \o ToJson(Judge(Recs[cur])))
Spec == Init /\ [][Next]_cur
=============================================================================
