------------------------------- MODULE ObsStr -------------------------------
(* trace validation for C06: records {id, src, plain, map} of real runs *)
EXTENDS Special, Json, IOUtils
Recs == ndJsonDeserialize(IOEnv.TRACE_FILE)
VARIABLE i
Init == i = 1
Next == i <= Len(Recs) /\ i' = i + 1
        /\ PrintT("@V" \o ToJson([id |-> Recs[i].id, bind |-> "ok", c06 |-> C06(Recs[i].src, Recs[i].plain, Recs[i].map)]))
Spec == Init /\ [][Next]_i
=============================================================================
