----------------------------- MODULE KeyValsTrace -----------------------------
(* Trace validation of the real Parser.parse_keyvals_list against KeyVals.tla, reusing its action Entry.                   *)
(* Record: {id, toks, vals} - the entries [key (kinds of its text), has (a value was given), val (tokens)] the real code     *)
(* returned for the token list toks.  The machine parses the same list; the results must agree (DRIFT otherwise), and the   *)
(* conservation property is evaluated on the REAL result as well.                                                            *)
EXTENDS KeyVals, IOUtils
Recs == ndJsonDeserialize(IOEnv.TRACE_FILE)
VARIABLE r
tvars == <<vars, r>>
LoadT(k) == IF k <= Len(Recs) THEN Recs[k].toks ELSE <<>>
TInit == r = 1 /\ buf = LoadT(1) /\ orig = LoadT(1) /\ vals = <<>> /\ phase = "run" /\ steps = 0 /\ skipped = {}
TRun == r <= Len(Recs) /\ Entry /\ r' = r
KeyKinds(e) == [x \in 1..Len(e.key) |-> e.key[x].k]
RealTimes(rec, t) == LET RECURSIVE Cnt(_, _)
                         Cnt(s, i) == IF i > Len(s) THEN 0 ELSE (IF s[i] = t THEN 1 ELSE 0) + Cnt(s, i + 1)
                         RECURSIVE Sum(_)
                         Sum(e) == IF e > Len(rec.vals) THEN 0 ELSE Cnt(rec.vals[e].val, 1) + Sum(e + 1) IN Sum(1)
\* no macro and no letter of a value is duplicated (letters of keys are compared through the key text)
RealConserved(rec) == \A x \in 1..Len(rec.toks) : rec.toks[x].k \in {"a", "b", "m"} => RealTimes(rec, rec.toks[x]) <= 1
Same(rec) == /\ Len(rec.vals) = Len(vals)
             /\ \A e \in 1..Len(vals) : rec.vals[e].key = KeyKinds(vals[e]) /\ rec.vals[e].has = vals[e].has /\ rec.vals[e].val = vals[e].val
Judge(rec) == [id |-> rec.id, bind |-> "ok",
   mech |-> IF ~RealConserved(rec) THEN "a-token-occurs-in-two-values" ELSE "ok",
   drift |-> IF phase = "endless" THEN "model-runs-away" ELSE IF Same(rec) THEN "none" ELSE "entries-differ-from-KeyVals.tla"]
TNext == /\ r <= Len(Recs) /\ phase \in {"done", "endless"}
         /\ PrintT("@V" \o ToJson(Judge(Recs[r])))
         /\ r' = r + 1 /\ buf' = LoadT(r + 1) /\ orig' = LoadT(r + 1) /\ vals' = <<>> /\ phase' = "run" /\ steps' = 0 /\ skipped' = {}
TSpec == TInit /\ [][TRun \/ TNext]_tvars
=============================================================================
