-------------------------------- MODULE Html --------------------------------
(* C16: the HTML report.  LEVEL B model of genhtml.generate_html for the      *)
(* structure of a report: which source lines are displayed, which matches     *)
(* are highlighted in place and which go to the list of overlapping messages. *)
(* The file is a sequence of line lengths (its text is chosen by the          *)
(* harness); a match is <<beg, len>> in characters (the position list is the  *)
(* identity, as for --plain-input).  The initial state picks ANY file, match  *)
(* list and context size within the bounds.                                   *)
EXTENDS Naturals, Integers, Sequences, FiniteSets, TLC, Json
CONSTANTS MaxLines, MaxLineLen, MaxMatches, Contexts
VARIABLES lens, matches, ctx, phase, hdata, regions, k
vars == <<lens, matches, ctx, phase, hdata, regions, k>>

RECURSIVE SumTo(_, _)
SumTo(l, n) == IF n = 0 THEN 0 ELSE l[n] + 1 + SumTo(l, n - 1)          \* characters of the first n lines incl. their line breaks
TexLen(l) == SumTo(l, Len(l))
LineOfOff(l, o) == Cardinality({n \in 1..Len(l) : SumTo(l, n) <= o})      \* 0-based line of offset o  (= tex.count('\n', 0, o))
NLines(l) == Len(l)
Pairs(l) == {<<b, n>> : b \in 0..(TexLen(l) - 1), n \in 0..3}
\* sorted match lists (the shell sorts by position)
MatchLists(l) == {s \in UNION {[1..j -> Pairs(l)] : j \in 0..MaxMatches} :
                    (\A i \in 1..Len(s) : s[i][1] + (IF s[i][2] < 1 THEN 1 ELSE s[i][2]) <= TexLen(l) - 1) /\ (\A i \in 1..(Len(s)-1) : s[i][1] <= s[i+1][1])}
Files == UNION {[1..j -> 0..MaxLineLen] : j \in 1..MaxLines}

Init == /\ lens \in Files /\ matches \in MatchLists(lens) /\ ctx \in Contexts
        /\ phase = "hdata" /\ hdata = <<>> /\ regions = <<>> /\ k = 1

Max2(a, b) == IF a > b THEN a ELSE b
Min2(a, b) == IF a < b THEN a ELSE b
\* genhtml.py:106-136, one match per step
HData == /\ phase = "hdata" /\ k <= Len(matches)
         /\ LET beg == matches[k][1]
                end == beg + Max2(1, matches[k][2])
                bl == LineOfOff(lens, beg)
                el == LineOfOff(lens, end) + 1 IN
            hdata' = Append(hdata, [beg |-> beg, end |-> end, beglin |-> bl, endlin |-> el, lin |-> bl, id |-> k])
         /\ k' = k + 1 /\ UNCHANGED <<lens, matches, ctx, phase, regions>>
HDone == phase = "hdata" /\ k > Len(matches) /\ phase' = "regions" /\ k' = 1 /\ UNCHANGED <<lens, matches, ctx, hdata, regions>>
\* genhtml.py:140-152: widen by the context and group into regions
MaxEnd(reg) == LET S == {reg[i].endlin : i \in 1..Len(reg)} IN CHOOSE x \in S : \A y \in S : y <= x
Whole == 99                \* stands for a negative --context (cfg files cannot hold negative numbers): the whole file
Cx == IF ctx = Whole THEN 100000 ELSE ctx
Region == /\ phase = "regions" /\ k <= Len(hdata)
          /\ LET h0 == hdata[k]
                 h == [h0 EXCEPT !.beglin = Max2(h0.beglin - Cx, 0), !.endlin = Min2(h0.endlin + Cx, NLines(lens))] IN
             IF regions = <<>> \/ h.beglin >= MaxEnd(regions[Len(regions)])
             THEN regions' = Append(regions, <<h>>)
             ELSE regions' = [regions EXCEPT ![Len(regions)] = Append(@, h)]
          /\ k' = k + 1 /\ UNCHANGED <<lens, matches, ctx, phase, hdata>>
RDone == phase = "regions" /\ k > Len(hdata) /\ phase' = "done" /\ UNCHANGED <<lens, matches, ctx, hdata, regions, k>>
Next == HData \/ HDone \/ Region \/ RDone
Spec == Init /\ [][Next]_vars

\* ---- what the report shows (genhtml.py:154-185) ---------------------------------
\* within a region: a match is put on the overlap list if it begins before the end of the last match shown in place
RECURSIVE InPlace(_, _, _)
InPlace(reg, i, last) == IF i > Len(reg) THEN {} ELSE
                         IF reg[i].beg < last THEN InPlace(reg, i+1, last) ELSE {reg[i].id} \cup InPlace(reg, i+1, reg[i].end)
RegStart(reg) == IF reg[1].beglin = 0 THEN 0 ELSE SumTo(lens, reg[1].beglin)
ShownInPlace == UNION {InPlace(regions[r], 1, RegStart(regions[r])) : r \in 1..Len(regions)}
Overlapped == {i \in 1..Len(matches) : i \notin ShownInPlace}
\* displayed lines (0-based), in order; with no match: the first ctx lines
Displayed == IF regions = <<>> THEN {n \in 0..(NLines(lens) - 1) : n < Cx}
             ELSE UNION {{n \in 0..(NLines(lens) - 1) : regions[r][1].beglin <= n /\ n < MaxEnd(regions[r])} : r \in 1..Len(regions)}

\* ---- invariants of the design ---------------------------------------------------
Done == phase = "done"
\* regions are disjoint and ordered
RegionsOrdered == \A r \in 1..(Len(regions) - 1) : MaxEnd(regions[r]) <= regions[r+1][1].beglin
\* every match belongs to exactly one region
EachInOneRegion == Done => \A i \in 1..Len(matches) : Cardinality({r \in 1..Len(regions) : \E j \in 1..Len(regions[r]) : regions[r][j].id = i}) = 1
\* a match shown in place lies in displayed lines
InPlaceDisplayed == Done => \A i \in ShownInPlace : \A o \in hdata[i].beg..(hdata[i].end - 1) : LineOfOff(lens, o) \in Displayed \/ o >= TexLen(lens)
\* matches shown in place do not overlap each other
InPlaceDisjoint == Done => \A i, j \in ShownInPlace : i < j => hdata[i].end <= hdata[j].beg
\* negative context: the whole file (if there is a match at all)
WholeFile == (Done /\ ctx = Whole /\ matches # <<>>) => Displayed = 0..(NLines(lens) - 1)
Dump == Done => PrintT("@@" \o ToJson([lens |-> lens, matches |-> matches, ctx |-> ctx, neg |-> ctx = Whole,
                                       displayed |-> Displayed, overlapped |-> Overlapped]))
=============================================================================
