------------------------------ MODULE ExpandTrace ------------------------------
(* Trace validation of the real Parser.expand_sequence against Expand.tla, reusing its actions.                          *)
(* Record: {id, toks, out, unk} - the token list the real expander returned for the input tokens toks (line removal      *)
(* switched off, it has its own model) and its list of unknowns.  The machine runs on the same input; the results must   *)
(* agree (DRIFT otherwise), and the properties of Expand.tla are evaluated on the REAL result as well.                    *)
EXTENDS Expand, IOUtils
Recs == ndJsonDeserialize(IOEnv.TRACE_FILE)
VARIABLE r
tvars == <<vars, r>>
LoadT(k) == IF k <= Len(Recs) THEN Recs[k].toks ELSE <<>>
TInit == r = 1 /\ buf = LoadT(1) /\ orig = LoadT(1) /\ stack = <<Frame(<<>>, "none", <<>>)>> /\ unknowns = <<>> /\ phase = "run"
         /\ spans = {} /\ oom = "no" /\ result = <<>> /\ nsym = 0 /\ nexp = 0
TRun == r <= Len(Recs) /\ Machine /\ r' = r
Mech(rec) == IF ~PosInInputOn(rec.out, rec.toks) THEN "a-position-outside-the-input"
             ELSE IF ~NoCallLeftOn(rec.out) THEN "a-control-sequence-survives"
             ELSE IF ~PosKeptOn(rec.out, rec.toks) THEN "a-copied-token-is-not-a-token-of-the-input"
             ELSE IF ~FixInSpanOn(rec.out, spans) THEN "a-generated-token-outside-every-construct"
             ELSE IF ~SubstOn(rec.out, rec.toks) THEN "letters-differ-from-TeX-substitution"
             ELSE IF ~UnknownsOn(rec.unk, rec.toks) THEN "unknowns-list-wrong"
             ELSE "ok"
Judge(rec) == [id |-> rec.id, bind |-> "ok", model |-> oom,
   mech |-> IF oom # "no" THEN "outside-model" ELSE Mech(rec),
   drift |-> IF oom # "no" THEN "outside-model" ELSE IF rec.out # result THEN "tokens-differ-from-Expand.tla"
             ELSE IF rec.unk # unknowns THEN "unknowns-differ-from-Expand.tla" ELSE "none"]
TNext == /\ r <= Len(Recs) /\ phase = "done"
         /\ PrintT("@V" \o ToJson(Judge(Recs[r])))
         /\ r' = r + 1 /\ buf' = LoadT(r + 1) /\ orig' = LoadT(r + 1) /\ stack' = <<Frame(<<>>, "none", <<>>)>> /\ unknowns' = <<>> /\ phase' = "run"
         /\ spans' = {} /\ oom' = "no" /\ result' = <<>> /\ nsym' = 0 /\ nexp' = 0
TSpec == TInit /\ [][TRun \/ TNext]_tvars
=============================================================================
