-------------------------------- MODULE Dbg --------------------------------
(* debugging aid: prints the reference meaning of the first record of TRACE_FILE *)
EXTENDS Doc, Align, Json, IOUtils
Recs == ndJsonDeserialize(IOEnv.TRACE_FILE)
VARIABLE i
Init == i = 1
Next == i = 1 /\ i' = 2 /\ PrintT(Ref(Recs[1].doc).items) /\ PrintT(Verdict(Ref(Recs[1].doc), Recs[1].plain, Recs[1].map))
Spec == Init /\ [][Next]_i
=============================================================================
