------------------------------- MODULE Align -------------------------------
(* LEVEL A, part 2: comparing an expectation (module Doc) with an           *)
(* observation (plain text + position map).  One left-to-right walk yields  *)
(* the verdicts of the text-flow properties:                                *)
(*   c03  conservation: every expected character present, in order; every   *)
(*        other output character is white space or belongs to the class of a *)
(*        generated-text slot standing at that place; required slots filled  *)
(*   c02  copied characters carry exactly their own offset; copied white     *)
(*        space lies between the neighbouring copied characters              *)
(*   c04  generated characters map into the span of their construct         *)
(*   c05  separator class between adjacent words (glue / blank / par)       *)
(* Every verdict is "ok" or the name of the first failing clause.           *)
EXTENDS Chars, Naturals, Sequences, FiniteSets, TLC

Ok4 == [c02 |-> "ok", c03 |-> "ok", c04 |-> "ok", c05 |-> "ok"]
Upd(acc, p, msg) == IF acc[p] = "ok" THEN [acc EXCEPT ![p] = msg] ELSE acc

\* characters a generated slot of class cls may contain (besides white space)
PhInline == {"B","C","D","E","F","G","-","U+0411","U+0412","U+0413","U+0414","U+0415","U+0416"}
PhDisplay == {"U","V","W","X","Y","Z","-","U+0426","U+0427","U+0428","U+042B","U+042D","U+042E"}
PhLang == {"K","L","M","N","-","U+041A","U+041B","U+041C","U+041D"}
ClassOk(cls, c) ==
  CASE cls = "ws" -> FALSE
    [] cls = "phi" -> c \in PhInline
    [] cls = "phi." -> c \in PhInline \cup {"."}
    [] cls = "phi," -> c \in PhInline \cup {","}
    [] cls = "phd" -> c \in PhDisplay \cup {".", ",", ";", ":"} \cup LowerChars \cup {"U+043F","U+043B","U+044E","U+0441","U+0440","U+0430","U+0432","U+043D","U+043E"}   \* display: placeholders, punctuation, operator words
    [] cls = "phl" -> c \in PhLang
    [] cls = "citesep" -> c = ","
    [] cls = "ipunct" -> c \in {".", ":", ",", ";", "!", "?"}
    [] cls = "label" -> c \in LowerChars \cup DigitChars \cup {"."}
    [] cls = "any" -> TRUE
    [] OTHER -> FALSE

Min(S) == CHOOSE x \in S : \A y \in S : x <= y
Matchable(e) == e.t \in {"c", "f"}

RECURSIVE NextM(_, _)
NextM(items, i) == IF i > Len(items) \/ Matchable(items[i]) THEN i ELSE NextM(items, i+1)
RECURSIVE FindCh(_, _, _)
FindCh(plain, j, ch) == IF j > Len(plain) THEN 0 ELSE IF plain[j] = ch THEN j ELSE FindCh(plain, j+1, ch)
\* the next output character that can be item e: preferably one that also has an admissible
\* position, otherwise the next one with the right character (then the position is the finding)
RECURSIVE FindExact(_, _, _, _)
FindExact(plain, map, j, e) ==
  IF j > Len(plain) THEN 0
  ELSE IF plain[j] = e.ch /\ e.lo <= map[j] /\ map[j] <= e.hi THEN j ELSE FindExact(plain, map, j+1, e)
FindItem(plain, map, j, e) ==
  LET x == FindExact(plain, map, j, e) IN IF x # 0 THEN x ELSE FindCh(plain, j, e.ch)

InSrc(src, p) == p >= 1 /\ p <= Len(src)

\* fillers plain[j1..j2] standing where the expectation has items[i1..i2] (no matchable item among them)
\* pa / na: positions of the neighbouring copied anchors (0 = none)
CheckFill(src, items, i1, i2, plain, map, j1, j2, pa, na, acc) ==
  LET G == {m \in i1..i2 : items[m].t = "g"}
      S == IF i2 >= i1 /\ items[i2].t = "s" THEN items[i2].ch ELSE "any"
      F == j1..j2
      InG(x) == \E m \in G : items[m].lo <= map[x] /\ map[x] <= items[m].hi
      Faithful(x) == InSrc(src, map[x]) /\ src[map[x]] = plain[x]
      Extra == {x \in F : ~IsSpace(plain[x]) /\ ~\E m \in G : ClassOk(items[m].ch, plain[x])}
      GenPos == {x \in F : ~IsSpace(plain[x]) /\ (\E m \in G : ClassOk(items[m].ch, plain[x]))
                            /\ ~\E m \in G : ClassOk(items[m].ch, plain[x]) /\ items[m].lo <= map[x] /\ map[x] <= items[m].hi}
      WsPos == {x \in F : IsSpace(plain[x]) /\ ~Faithful(x) /\ ~InG(x)}
      WsOrd == {x \in F : G = {} /\ IsSpace(plain[x]) /\ Faithful(x) /\ pa > 0 /\ na > pa /\ ~(pa < map[x] /\ map[x] < na)}
      Unfilled == {m \in G : items[m].n = 1 /\ ~\E x \in F : ~IsSpace(plain[x]) /\ ClassOk(items[m].ch, plain[x])}
      fill == [k \in 1..(j2 - j1 + 1) |-> plain[j1 + k - 1]]
      a1 == IF Extra # {} THEN Upd(acc, "c03", "extra-text@" \o ToString(Min(Extra)) \o ":" \o plain[Min(Extra)]) ELSE acc
      a2 == IF Unfilled # {} THEN Upd(a1, "c03", "generated-text-missing:" \o items[Min(Unfilled)].ch \o "@item" \o ToString(Min(Unfilled))) ELSE a1
      a3 == IF GenPos # {} THEN Upd(a2, "c04", "generated-char-outside-span@" \o ToString(Min(GenPos))) ELSE a2
      \* white space that is no faithful copy: where nothing generates white space it must be a (shifted) copy -> C02
      a4 == IF WsPos # {} THEN Upd(a3, IF G = {} THEN "c02" ELSE "c04",
                                   (IF G = {} THEN "copied-space-maps-to-another-character@" ELSE "white-space-neither-copy-nor-in-span@") \o ToString(Min(WsPos))) ELSE a3
      a5 == IF WsOrd # {} THEN Upd(a4, "c02", "copied-space-outside-neighbours@" \o ToString(Min(WsOrd))) ELSE a4
      a6 == IF S \in {"glue", "blank", "par"} /\ Extra = {} /\ AllSpace(fill) /\ SepClass(fill) # S
            THEN Upd(a5, "c05", "separator-expected-" \o S \o "-got-" \o SepClass(fill) \o "@" \o ToString(j1)) ELSE a5
  IN a6

RECURSIVE Walk(_, _, _, _, _, _, _, _)
Walk(src, items, plain, map, i, j, pa, acc) ==
  LET k == NextM(items, i) IN
  IF k > Len(items) THEN CheckFill(src, items, i, Len(items), plain, map, j, Len(plain), pa, 0, acc)
  ELSE LET e == items[k]
           j2 == FindItem(plain, map, j, e) IN
       IF j2 = 0 THEN Upd(acc, "c03", "expected-text-missing:" \o e.ch \o "@item" \o ToString(k))
       ELSE LET na == IF e.t = "c" THEN e.lo ELSE 0
                a1 == CheckFill(src, items, i, k-1, plain, map, j, j2-1, pa, na, acc)
                a2 == IF e.t = "c" /\ map[j2] # e.lo
                      THEN Upd(a1, "c02", "copied-char-" \o e.ch \o "-at-" \o ToString(map[j2]) \o "-expected-" \o ToString(e.lo) \o "@" \o ToString(j2))
                      ELSE IF e.t = "f" /\ ~(e.lo <= map[j2] /\ map[j2] <= e.hi)
                      THEN Upd(a1, "c04", "generated-char-" \o e.ch \o "-at-" \o ToString(map[j2]) \o "-outside-" \o ToString(e.lo) \o ".." \o ToString(e.hi) \o "@" \o ToString(j2))
                      ELSE a1
            IN Walk(src, items, plain, map, k+1, j2+1, IF e.t = "c" THEN e.lo ELSE 0, a2)

\* the position list is usable at all (C01): same length, every entry inside the source
C01(srclen, plain, map) ==
  IF Len(plain) # Len(map) THEN "length-text-" \o ToString(Len(plain)) \o "-map-" \o ToString(Len(map))
  ELSE IF \E x \in 1..Len(map) : map[x] < 1 \/ map[x] > srclen
       THEN "entry-out-of-range@" \o ToString(Min({x \in 1..Len(map) : map[x] < 1 \/ map[x] > srclen}))
       ELSE "ok"

\* markup and hidden vocabulary must not reach the output (C03, second sentence)
Leak(plain, forbidden) ==
  IF \E x \in 1..Len(plain) : plain[x] \in forbidden
  THEN "leak@" \o ToString(Min({x \in 1..Len(plain) : plain[x] \in forbidden})) \o ":" \o plain[Min({x \in 1..Len(plain) : plain[x] \in forbidden})]
  ELSE "ok"

Verdict(exp, plain, map) ==
  LET v1 == C01(Len(exp.src), plain, map) IN
  \* (entries outside the source do not hinder the other predicates: every access to the source is guarded)
  IF Len(plain) # Len(map) THEN [c01 |-> v1, c02 |-> "skipped", c03 |-> "skipped", c04 |-> "skipped", c05 |-> "skipped"]
  ELSE LET w == Walk(exp.src, exp.items, plain, map, 1, 1, 0, Ok4) IN
       [c01 |-> v1, c02 |-> w.c02, c03 |-> w.c03, c04 |-> w.c04, c05 |-> w.c05]
=============================================================================
