------------------------------- MODULE ObsInc -------------------------------
(* trace validation for --include: record {id, n, inc (per file: list), start, skip (list), done (observed work list), exit} *)
EXTENDS Naturals, Sequences, FiniteSets, TLC, Json, IOUtils
Recs == ndJsonDeserialize(IOEnv.TRACE_FILE)
VARIABLE cur
Init == cur = 1
InSeq(x, s) == \E i \in 1..Len(s) : s[i] = x
SetOf(s) == {s[i] : i \in 1..Len(s)}
RECURSIVE ReachN(_, _, _, _)
ReachN(r, S, sk, k) == IF k = 0 THEN S ELSE ReachN(r, S \cup {b \in (1..r.n) \ sk : \E a \in S : InSeq(b, r.inc[a])}, sk, k - 1)
C18(r) ==
  LET sk == SetOf(r.skip)
      reach == ReachN(r, SetOf(r.start) \ sk, sk, r.n)
      d == r.done IN
  IF r.exit # 0 THEN "shell-did-not-finish-exit-" \o ToString(r.exit)
  ELSE IF \E i, j \in 1..Len(d) : i # j /\ d[i] = d[j] THEN "file-checked-twice"
  ELSE IF \E i \in 1..Len(d) : d[i] \in sk THEN "skipped-file-checked"
  ELSE IF SetOf(d) \ reach # {} THEN "file-checked-that-is-not-reachable"
  ELSE IF reach \ SetOf(d) # {} THEN "reachable-file-not-checked"
  ELSE IF \E i \in 1..Len(d) : ~(InSeq(d[i], r.start) \/ \E j \in 1..(i-1) : InSeq(d[i], r.inc[d[j]])) THEN "not-in-discovery-order"
  ELSE IF \E i, j \in 1..Len(r.start) : i < j /\ r.start[i] \notin sk /\ r.start[j] \notin sk /\ r.start[i] # r.start[j]
            /\ ~\E a, b \in 1..Len(d) : d[a] = r.start[i] /\ d[b] = r.start[j] /\ a < b THEN "start-files-out-of-order"
  ELSE "ok"
Next == cur <= Len(Recs) /\ cur' = cur + 1
        /\ LET r == Recs[cur] IN PrintT("@V" \o ToJson([id |-> r.id, bind |-> "ok", c18 |-> C18(r),
                  drift |-> IF r.done = r.model THEN "none" ELSE "work-list-differs-from-Include.tla"]))
Spec == Init /\ [][Next]_cur
=============================================================================
