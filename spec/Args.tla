--------------------------------- MODULE Args ---------------------------------
(* LEVEL B: argument collection of the expander (parser.py expand_arguments /  *)
(* arg_buffer, Buffer.skip_space): one action per argument code of the macro.  *)
(* Mechanisms modelled: blanks, comments, action, void and language tokens are *)
(* skipped, paragraph breaks are not; a closing brace is not taken as an       *)
(* argument (issue 135); a group that is not closed before the end of the      *)
(* text is pushed back behind its opening token together with an error mark,   *)
(* the caller gets a buffer that holds only a mark (issue 23); an argument     *)
(* list is never empty.  TLC explores ALL token buffers up to MaxToks over the *)
(* alphabet for ALL argument codes up to MaxArgs.                              *)
EXTENDS Naturals, Sequences, FiniteSets, TLC, Json
CONSTANTS MaxToks, MaxArgs
Kinds == {"{", "}", "[", "]", "*", "a", "sp", "par", "cm", "act", "lng"}
Codes == {"*", "O", "A"}
Tok(k, p) == [k |-> k, p |-> p]
IsSkip(t) == t.k \in {"sp", "cm", "act", "lng", "void"}
VARIABLES buf, codes, phase, n, args, delims, pos, orig, recovered
vars == <<buf, codes, phase, n, args, delims, pos, orig, recovered>>
Init == buf = <<>> /\ codes = <<>> /\ phase = "build" /\ n = 1 /\ args = <<>> /\ delims = <<>> /\ pos = 0 /\ orig = <<>> /\ recovered = 0
AddTok(k) == phase = "build" /\ Len(buf) < MaxToks /\ buf' = Append(buf, Tok(k, Len(buf) + 1)) /\ UNCHANGED <<codes, phase, n, args, delims, pos, orig, recovered>>
AddCode(c) == phase = "build" /\ Len(codes) < MaxArgs /\ codes' = Append(codes, c) /\ UNCHANGED <<buf, phase, n, args, delims, pos, orig, recovered>>
Start == phase = "build" /\ codes # <<>> /\ phase' = "run" /\ orig' = buf /\ UNCHANGED <<buf, codes, n, args, delims, pos, recovered>>

RECURSIVE Skip(_)
Skip(b) == IF b # <<>> /\ IsSkip(Head(b)) THEN Skip(Tail(b)) ELSE b
\* the language tokens among the tokens that Skip passes over (pushed back when an optional argument is absent, fix 6fcf81f)
Lngs(bf) == SelectSeq(SubSeq(bf, 1, Len(bf) - Len(Skip(bf))), LAMBDA t : t.k = "lng")
Void(p) == [k |-> "void", p |-> p]
Mark(p) == [k |-> "mark", p |-> p]
\* the loop of arg_buffer after the opening token: [found, arg, rest]
RECURSIVE Collect(_, _, _, _)
Collect(b, lev, end, acc) ==
   IF b = <<>> THEN [found |-> FALSE, arg |-> acc, rest |-> <<>>]
   ELSE LET t == Head(b)
            lev1 == IF t.k = "{" THEN lev + 1 ELSE IF t.k = "}" THEN lev - 1 ELSE lev IN
        IF t.k = end /\ lev1 = 0 THEN [found |-> TRUE, arg |-> acc, rest |-> Tail(b)]
        ELSE Collect(Tail(b), lev1, end, Append(acc, t))
\* arg_buffer(buf, start, end): [arg, rest, rec]
ArgBuffer(b0, start, end) ==
   LET b == Skip(b0) IN
   IF b = <<>> THEN [arg |-> <<Void(start)>>, rest |-> b, rec |-> FALSE]
   ELSE IF Head(b).k = "par" THEN [arg |-> <<Void(Head(b).p)>>, rest |-> b, rec |-> FALSE]
   ELSE IF end = "}" /\ Head(b).k # "{" THEN [arg |-> <<Head(b)>>, rest |-> Tail(b), rec |-> FALSE]
   ELSE LET open == Head(b)
            r == Collect(Tail(b), IF open.k = "{" THEN 1 ELSE 0, end, <<>>) IN
        IF r.found THEN [arg |-> IF r.arg = <<>> THEN <<Void(open.p)>> ELSE r.arg, rest |-> r.rest, rec |-> FALSE]
        ELSE [arg |-> <<Mark(open.p)>>, rest |-> <<open, Mark(open.p)>> \o r.arg, rec |-> TRUE]
\* one argument code (parser.py:328-362)
Step == /\ phase = "run" /\ n <= Len(codes)
        /\ LET b == Skip(buf)
               tok == IF b = <<>> THEN Void(0) ELSE Head(b)
               has == b # <<>>
               p == IF has THEN tok.p ELSE pos
               c == codes[n] IN
           /\ pos' = p
           /\ IF c = "*" THEN
                 IF has /\ tok.k = "*" THEN args' = Append(args, <<tok>>) /\ buf' = Tail(b) /\ delims' = Append(delims, FALSE) /\ recovered' = recovered
                 ELSE args' = Append(args, <<>>) /\ buf' = Lngs(buf) \o b /\ delims' = Append(delims, FALSE) /\ recovered' = recovered
              ELSE IF c = "O" THEN
                 IF has /\ tok.k = "[" THEN
                    LET r == ArgBuffer(b, p, "]") IN
                    args' = Append(args, r.arg) /\ buf' = r.rest /\ delims' = Append(delims, TRUE) /\ recovered' = recovered + (IF r.rec THEN 1 ELSE 0)
                 ELSE args' = Append(args, <<>>) /\ buf' = Lngs(buf) \o b /\ delims' = Append(delims, FALSE) /\ recovered' = recovered
              ELSE \* "A"
                 IF has /\ tok.k = "}" THEN args' = Append(args, <<Void(p)>>) /\ buf' = b /\ delims' = Append(delims, FALSE) /\ recovered' = recovered
                 ELSE LET r == ArgBuffer(b, p, "}") IN
                      args' = Append(args, r.arg) /\ buf' = r.rest /\ delims' = Append(delims, has /\ tok.k = "{") /\ recovered' = recovered + (IF r.rec THEN 1 ELSE 0)
        /\ n' = n + 1 /\ UNCHANGED <<codes, phase, orig>>
Finish == phase = "run" /\ n > Len(codes) /\ phase' = "done" /\ UNCHANGED <<buf, codes, n, args, delims, pos, orig, recovered>>
Next == (\E k \in Kinds : AddTok(k)) \/ (\E c \in Codes : AddCode(c)) \/ Start \/ Step \/ Finish
Spec == Init /\ [][Next]_vars /\ WF_vars(Step \/ Finish)

\* ---- invariants ---------------------------------------------------------------------
\* a mandatory argument, and an optional one that is present, is never an empty list (handlers index args[k][-1], args[k][0])
ArgNonEmpty == \A k \in 1..Len(args) : (codes[k] = "A" \/ delims[k]) => args[k] # <<>>
\* a closing brace is never taken as (part of) a mandatory argument on its own (issue 135)
NoBraceArg == \A k \in 1..Len(args) : codes[k] = "A" => args[k] # << [k |-> "}", p |-> args[k][1].p] >>
\* nothing but delimiters, skipped white space and matched argument tokens leaves the buffer: every original token that is
\* neither in an argument nor left in the buffer is a skipped token or a delimiter  (no text is lost - issue 23)
InArgs(t) == \E k \in 1..Len(args) : \E x \in 1..Len(args[k]) : args[k][x] = t
InBuf(t) == \E x \in 1..Len(buf) : buf[x] = t
NothingLost == phase \in {"run", "done"} => \A x \in 1..Len(orig) :
      InArgs(orig[x]) \/ InBuf(orig[x]) \/ IsSkip(orig[x]) \/ orig[x].k \in {"{", "}", "[", "]"}
\* text tokens in particular are either handed over in an argument or still to be read
TextKept == phase \in {"run", "done"} => \A x \in 1..Len(orig) : orig[x].k \in {"a", "par"} => InArgs(orig[x]) \/ InBuf(orig[x])
\* an unclosed group comes with exactly one error mark in the input and one for the caller
RecoveryMarks == Cardinality({x \in 1..Len(buf) : buf[x].k = "mark"}) <= recovered
\* absent optional arguments do not swallow a language switch
LangKept == (phase = "done" /\ \A k \in 1..Len(args) : args[k] = <<>>) => \A x \in 1..Len(orig) : orig[x].k = "lng" => InBuf(orig[x])
Terminates == (phase = "run") ~> (phase = "done")
Dump == phase = "done" => PrintT("@@" \o ToJson([toks |-> orig, codes |-> codes, args |-> args, delims |-> delims, rest |-> buf]))
=============================================================================
