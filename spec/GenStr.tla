------------------------------- MODULE GenStr -------------------------------
(* all strings of at most MaxSym symbols over an alphabet of prose           *)
(* characters and special sequences (C06); Alpha is chosen by the cfg        *)
EXTENDS Special, Json
CONSTANTS AlphaSet, MaxSym
Full == << <<"a">>, <<"b">>, <<" ">>, <<NL>>, <<".">>, <<"-">>, <<"`">>, <<"'">>, <<"~">>, <<BS,",">>,
           <<BS,"%">>, <<BS,"&">>, <<BS,"$">>, <<BS,"#">>, <<BS,"_">>, <<BS,"{">>, <<BS,"}">>, <<BS,BS>>, <<"&">> >>
Alpha == IF AlphaSet = "full" THEN Full ELSE << <<"a">>, <<" ">>, <<NL>>, <<"-">>, <<"`">>, <<"'">> >>
VARIABLES src, n, phase
vars == <<src, n, phase>>
Init == src = <<>> /\ n = 0 /\ phase = "gen"
Add(k) == phase = "gen" /\ n < MaxSym /\ src' = src \o Alpha[k] /\ n' = n + 1 /\ phase' = phase
Finish == phase = "gen" /\ n > 0 /\ phase' = "done" /\ UNCHANGED <<src, n>>
Next == (\E k \in 1..Len(Alpha) : Add(k)) \/ Finish
Spec == Init /\ [][Next]_vars
\* sanity of the reference itself: same length of text and map, positions increase, in range;
\* prose without any table key is a fixed point with the identity map
RefSane == LET p == RefPlain(src) m == RefMap(src) IN
   /\ Len(p) = Len(m)
   /\ \A i \in 1..Len(m) : m[i] >= 1 /\ m[i] <= Len(src) /\ (i > 1 => m[i-1] <= m[i])
   /\ ((\A i \in 1..Len(src) : Cands(src, i) = {}) => p = src /\ m = [i \in 1..Len(src) |-> i])
Dump == phase = "done" /\ ~Excluded(src) => PrintT("@@" \o ToJson([src |-> src]))
=============================================================================
