------------------------------ MODULE AggTrace ------------------------------
(* trace validation of the real aggregation code (proofreader.run_proofreader_options + utils.map_match_position)  *)
(* driven along the scenarios TLC generated from Aggregate.tla.  Record:                                          *)
(*   {id, n, parts: [{map, ms: [[offset,length]]}], reported: [{offset,length,part,local,plen}], cm, plen,          *)
(*    model: {reported, cm, plen}}                                                                                   *)
EXTENDS AggProps, TLC, Json, IOUtils
Recs == ndJsonDeserialize(IOEnv.TRACE_FILE)
VARIABLE cur
Init == cur = 1
Judge(r) ==
  LET c14 == IF Len(r.cm) # r.plen THEN "text-and-positions-out-of-step"
             ELSE IF ~P_ReportedAtWord(r.parts, r.reported) THEN "match-not-reported-at-the-flagged-characters"
             ELSE IF ~P_Ordered(r.reported) THEN "messages-not-ordered-by-position-in-the-file"
             ELSE IF ~P_AllReported(r.parts, r.reported) THEN "match-lost-or-duplicated"
             ELSE IF ~P_InFile(r.n, r.reported) THEN "location-outside-the-file"
             ELSE "ok"
      same == r.model.cm = r.cm /\ r.model.plen = r.plen
              /\ [k \in 1..Len(r.reported) |-> <<r.reported[k].offset, r.reported[k].length, r.reported[k].part, r.reported[k].local>>]
                 = [k \in 1..Len(r.model.reported) |-> <<r.model.reported[k].offset, r.model.reported[k].length, r.model.reported[k].part, r.model.reported[k].local>>] IN
  [id |-> r.id, bind |-> "ok", c14 |-> c14, drift |-> IF same THEN "none" ELSE "real-aggregation-differs-from-Aggregate.tla"]
Next == cur <= Len(Recs) /\ cur' = cur + 1 /\ PrintT("@V" \o ToJson(Judge(Recs[cur])))
Spec == Init /\ [][Next]_cur
=============================================================================
