-------------------------------- MODULE Expand --------------------------------
(* LEVEL B: the main loop of the expander (parser.py expand_sequence) with its  *)
(* helpers expand_macro, expand_arguments, arg_buffer, generate_replacements,   *)
(* begin_environment and end_environment, as a state machine on a token buffer.*)
(* One action per branch of the loop; everything the code pushes back into the *)
(* buffer (buf.back) is pushed back here and scanned again, as in the code.     *)
(* A removed environment runs a nested loop on the same buffer: a frame on the  *)
(* stack whose collected output is thrown away when the matching \end arrives   *)
(* and is handed to the caller when the text ends first.                        *)
(*                                                                              *)
(* Vocabulary: letters, blank, paragraph break, braces, brackets, comment,      *)
(* macros  \mzero -> x   \mone#1 -> x#1y   \mtwo#1#2 -> #2#1                    *)
(*         \mopt[#1=d]#2 -> #1x#2   \mnest#1 -> \mone{#1}   \mdup#1 -> #1#1     *)
(*         \munk (not defined),                                                 *)
(* environments R (removed), P (paragraph breaks around it), U (not defined).   *)
(* TLC builds ALL inputs of up to MaxSym symbols over Alpha and runs the        *)
(* machine on each.                                                             *)
EXTENDS Naturals, Sequences, FiniteSets, TLC, Json
CONSTANTS Alpha, MaxSym, MaxExp

T(k, p, f) == [k |-> k, p |-> p, f |-> f]
Act(p) == T("act", p, FALSE)
Void(p) == T("void", p, FALSE)
Mark(p) == T("mark", p, TRUE)
Letters == {"a", "b", "x", "y", "d", "R", "P", "U", "[", "]"}
Known == {"m0", "m1", "m2", "mo", "mn", "md"}
IsSkip(t) == t.k \in {"sp", "cm", "act", "void"}

\* ---- the macro table ------------------------------------------------------------------
BT(k) == [b |-> "tok", k |-> k, n |-> 0]
BA(n) == [b |-> "arg", k |-> "", n |-> n]
Codes(m) == CASE m = "m0" -> <<>> [] m = "m1" -> <<"A">> [] m = "m2" -> <<"A", "A">> [] m = "mo" -> <<"O", "A">>
              [] m = "mn" -> <<"A">> [] m = "md" -> <<"A">> [] OTHER -> <<>>
Body(m) == CASE m = "m0" -> <<BT("x")>> [] m = "m1" -> <<BT("x"), BA(1), BT("y")>> [] m = "m2" -> <<BA(2), BA(1)>>
             [] m = "mo" -> <<BA(1), BT("x"), BA(2)>> [] m = "mn" -> <<BT("m1"), BT("{"), BA(1), BT("}")>>
             [] m = "md" -> <<BA(1), BA(1)>> [] OTHER -> <<>>
Defaults(m) == IF m = "mo" THEN << <<"d">> >> ELSE <<>>

\* ---- input symbols: a symbol is one or more tokens with consecutive positions --------------
SymToks(s, p) == CASE s \in {"bgR", "bgP", "bgU"} -> <<T("bg", p, FALSE), T("{", p + 1, FALSE), T(IF s = "bgR" THEN "R" ELSE IF s = "bgP" THEN "P" ELSE "U", p + 2, FALSE), T("}", p + 3, FALSE)>>
                  [] s \in {"enR", "enP", "enU"} -> <<T("en", p, FALSE), T("{", p + 1, FALSE), T(IF s = "enR" THEN "R" ELSE IF s = "enP" THEN "P" ELSE "U", p + 2, FALSE), T("}", p + 3, FALSE)>>
                  [] OTHER -> <<T(s, p, FALSE)>>

\* ---- arg_buffer, expand_arguments, generate_replacements as functions of the buffer --------
RECURSIVE Skip(_)
Skip(b) == IF b # <<>> /\ IsSkip(Head(b)) THEN Skip(Tail(b)) ELSE b
\* behind a macro name: blanks and comments, but not an action token - it marks the end of a substituted argument (fix 05f099b)
RECURSIVE SkipM(_)
SkipM(b) == IF b # <<>> /\ Head(b).k \in {"sp", "cm", "void"} THEN SkipM(Tail(b)) ELSE b
RECURSIVE Collect(_, _, _, _)
Collect(b, lev, end, acc) ==
   IF b = <<>> THEN [found |-> FALSE, arg |-> acc, rest |-> <<>>]
   ELSE LET t == Head(b)
            lev1 == IF t.k = "{" THEN lev + 1 ELSE IF t.k = "}" THEN lev - 1 ELSE lev IN
        IF t.k = end /\ lev1 = 0 THEN [found |-> TRUE, arg |-> acc, rest |-> Tail(b)]
        ELSE Collect(Tail(b), lev1, end, Append(acc, t))
ArgBuffer(b0, start, end) ==
   LET b == Skip(b0) IN
   IF b = <<>> THEN [arg |-> <<Void(start)>>, rest |-> b]
   ELSE IF Head(b).k = "par" THEN [arg |-> <<Void(Head(b).p)>>, rest |-> b]
   ELSE IF end = "}" /\ Head(b).k # "{" THEN [arg |-> <<Head(b)>>, rest |-> Tail(b)]
   ELSE LET open == Head(b)
            r == Collect(Tail(b), IF open.k = "{" THEN 1 ELSE 0, end, <<>>) IN
        IF r.found THEN [arg |-> IF r.arg = <<>> THEN <<Void(open.p)>> ELSE r.arg, rest |-> r.rest]
        ELSE [arg |-> <<Mark(open.p)>>, rest |-> <<open, Mark(open.p)>> \o r.arg]       \* issue 23: push back, hand over a mark
RECURSIVE CollArgs(_, _, _, _, _, _)
CollArgs(b0, codes, dflt, n, pos, acc) ==
   IF n > Len(codes) THEN [args |-> acc, rest |-> b0]
   ELSE LET b == Skip(b0)
            has == b # <<>>
            tok == IF has THEN Head(b) ELSE Void(0)
            p == IF has THEN tok.p ELSE pos IN
        IF codes[n] = "O" THEN
           IF has /\ tok.k = "[" THEN LET r == ArgBuffer(b, p, "]") IN CollArgs(r.rest, codes, dflt, n + 1, p, Append(acc, r.arg))
           ELSE CollArgs(b, codes, dflt, n + 1, p, Append(acc, IF n <= Len(dflt) THEN [i \in 1..Len(dflt[n]) |-> T(dflt[n][i], pos, TRUE)] ELSE <<>>))
        ELSE IF has /\ tok.k = "}" THEN CollArgs(b, codes, dflt, n + 1, p, Append(acc, <<Void(p)>>))        \* issue 135
        ELSE LET r == ArgBuffer(b, p, "}") IN CollArgs(r.rest, codes, dflt, n + 1, p, Append(acc, r.arg))
RECURSIVE FirstPos(_, _, _, _)
FirstPos(body, i, cur, args) == IF i > Len(body) THEN cur
   ELSE FirstPos(body, i + 1, IF body[i].b = "arg" /\ args[body[i].n] # <<>> THEN args[body[i].n][1].p ELSE cur, args)
RECURSIVE Gen(_, _, _, _)
Gen(body, i, cur, args) ==
   IF i > Len(body) THEN <<>>
   ELSE IF body[i].b = "arg" THEN
           LET a == args[body[i].n] IN
           IF a # <<>> THEN <<Act(a[1].p)>> \o a \o <<Act(a[Len(a)].p)>> \o Gen(body, i + 1, a[Len(a)].p, args)
           ELSE Gen(body, i + 1, cur, args)
        ELSE <<T(body[i].k, cur, TRUE)>> \o Gen(body, i + 1, cur, args)
GenRepl(args, body, start) == Gen(body, 1, FirstPos(body, 1, start, args), args)

\* ---- names of environments ----------------------------------------------------------------
\* the name is the expanded text of the argument; the machine handles names made of letters only and declares everything
\* else (a macro, a blank, an error mark in the name) outside the model
NameBad(arg) == \E i \in 1..Len(arg) : arg[i].k \notin Letters \cup {"void", "act"}
RECURSIVE NameOf(_)
NameOf(arg) == IF arg = <<>> THEN "" ELSE (IF Head(arg).k \in Letters THEN Head(arg).k ELSE "") \o NameOf(Tail(arg))
EnvKnown(nm) == nm \in {"R", "P"}

RECURSIVE MaxP(_, _)
MaxP(ts, m) == IF ts = <<>> THEN m ELSE MaxP(Tail(ts), IF Head(ts).p > m THEN Head(ts).p ELSE m)
RECURSIVE Flat(_)
Flat(ss) == IF ss = <<>> THEN <<>> ELSE Head(ss) \o Flat(Tail(ss))
InSeq(x, s) == \E i \in 1..Len(s) : s[i] = x

VARIABLES buf, stack, unknowns, phase, orig, spans, oom, result, nsym, nexp
vars == <<buf, stack, unknowns, phase, orig, spans, oom, result, nsym, nexp>>
Frame(out, stop, pre) == [out |-> out, stop |-> stop, pre |-> pre]
Top == stack[Len(stack)]
SetTop(f) == [stack EXCEPT ![Len(stack)] = f]
Emit(ts) == stack' = SetTop([Top EXCEPT !.out = Top.out \o ts])

Init == buf = <<>> /\ stack = <<Frame(<<>>, "none", <<>>)>> /\ unknowns = <<>> /\ phase = "build" /\ orig = <<>> /\ spans = {} /\ oom = "no" /\ result = <<>> /\ nsym = 0 /\ nexp = 0
AddSym(s) == phase = "build" /\ nsym < MaxSym /\ buf' = buf \o SymToks(s, Len(buf) + 1) /\ nsym' = nsym + 1
             /\ UNCHANGED <<stack, unknowns, phase, orig, spans, oom, result, nexp>>
Start == phase = "build" /\ buf # <<>> /\ phase' = "run" /\ orig' = buf /\ UNCHANGED <<buf, stack, unknowns, spans, oom, result, nsym, nexp>>

Running == phase = "run" /\ buf # <<>>
hd == Head(buf)
\* MacroToken: expand_macro, result pushed back
DoMacro == /\ Running /\ hd.k \in Known \cup {"un"} /\ nexp < MaxExp
           /\ nexp' = nexp + 1
           /\ LET rest == SkipM(Tail(buf)) IN
              IF hd.k = "un" THEN
                 /\ unknowns' = IF InSeq("un", unknowns) THEN unknowns ELSE Append(unknowns, "un")
                 /\ buf' = <<Act(hd.p)>> \o rest /\ UNCHANGED spans
              ELSE LET r == CollArgs(rest, Codes(hd.k), Defaults(hd.k), 1, hd.p, <<>>) IN
                 /\ buf' = <<Act(hd.p)>> \o GenRepl(r.args, Body(hd.k), hd.p) \o r.rest
                 /\ spans' = spans \cup {[lo |-> hd.p, hi |-> MaxP(Flat(r.args), hd.p)]}
                 /\ UNCHANGED unknowns
           /\ UNCHANGED <<stack, phase, orig, oom, result, nsym>>
\* a macro that doubles its argument and is handed itself expands for ever, as in TeX: outside the claim
Diverge == Running /\ hd.k \in Known \cup {"un"} /\ nexp >= MaxExp /\ phase' = "done" /\ oom' = "diverge"
           /\ UNCHANGED <<buf, stack, unknowns, orig, spans, result, nsym, nexp>>
\* BeginToken: begin_environment
DoBegin == /\ Running /\ hd.k = "bg"
           /\ LET nm == ArgBuffer(Tail(buf), hd.p, "}")
                  name == NameOf(nm.arg)
                  pre == <<T("par", hd.p, TRUE), Act(hd.p)>> IN
              IF NameBad(nm.arg) THEN oom' = "name" /\ phase' = "done" /\ UNCHANGED <<buf, stack, unknowns, spans>>
              ELSE /\ UNCHANGED <<oom, phase>>
                   /\ spans' = spans \cup {[lo |-> hd.p, hi |-> MaxP(nm.arg, hd.p)]}
                   /\ IF ~EnvKnown(name) THEN
                         /\ unknowns' = IF InSeq(name, unknowns) THEN unknowns ELSE Append(unknowns, name)
                         /\ buf' = <<Act(hd.p)>> \o nm.rest /\ UNCHANGED stack
                      ELSE IF name = "P" THEN buf' = pre \o nm.rest /\ UNCHANGED <<stack, unknowns>>
                      ELSE buf' = nm.rest /\ stack' = Append(stack, Frame(<<>>, name, pre)) /\ UNCHANGED unknowns
           /\ UNCHANGED <<orig, result, nsym, nexp>>
\* EndToken: end_environment; a nested loop stops at its own \end and its output is dropped
DoEnd == /\ Running /\ hd.k = "en"
         /\ LET nm == ArgBuffer(Tail(buf), hd.p, "}")
                name == NameOf(nm.arg)
                out == IF EnvKnown(name) THEN <<T("par", hd.p, TRUE)>> ELSE <<Act(hd.p)>> IN
            IF NameBad(nm.arg) THEN oom' = "name" /\ phase' = "done" /\ UNCHANGED <<buf, stack, spans>>
            ELSE /\ UNCHANGED <<oom, phase>>
                 /\ spans' = spans \cup {[lo |-> hd.p, hi |-> MaxP(nm.arg, hd.p)]}
                 /\ IF name = Top.stop THEN buf' = Top.pre \o out \o nm.rest /\ stack' = SubSeq(stack, 1, Len(stack) - 1)
                    ELSE buf' = out \o nm.rest /\ UNCHANGED stack
         /\ UNCHANGED <<unknowns, orig, result, nsym, nexp>>
DoBrace == Running /\ hd.k \in {"{", "}"} /\ Emit(<<Act(hd.p)>>) /\ buf' = Tail(buf) /\ UNCHANGED <<unknowns, phase, orig, spans, oom, result, nsym, nexp>>
DoComment == Running /\ hd.k = "cm" /\ buf' = Tail(buf) /\ UNCHANGED <<stack, unknowns, phase, orig, spans, oom, result, nsym, nexp>>
DoCopy == Running /\ hd.k \notin Known \cup {"un", "bg", "en", "{", "}", "cm"} /\ Emit(<<hd>>) /\ buf' = Tail(buf)
          /\ UNCHANGED <<unknowns, phase, orig, spans, oom, result, nsym, nexp>>
\* end of the buffer: a nested loop hands its output to the caller, which pushes it back; the outermost loop is done
EndNested == phase = "run" /\ buf = <<>> /\ Len(stack) > 1 /\ buf' = Top.pre \o Top.out /\ stack' = SubSeq(stack, 1, Len(stack) - 1)
             /\ UNCHANGED <<unknowns, phase, orig, spans, oom, result, nsym, nexp>>
EndOuter == phase = "run" /\ buf = <<>> /\ Len(stack) = 1 /\ phase' = "done" /\ result' = Top.out
            /\ UNCHANGED <<buf, stack, unknowns, orig, spans, oom, nsym, nexp>>
Machine == DoMacro \/ Diverge \/ DoBegin \/ DoEnd \/ DoBrace \/ DoComment \/ DoCopy \/ EndNested \/ EndOuter
Next == (\E s \in Alpha : AddSym(s)) \/ Start \/ Machine
Spec == Init /\ [][Next]_vars /\ WF_vars(Machine)

\* ---- the reference: call-by-value substitution on well-formed input -----------------------------------------------------
\* [ok, txt]: ok only if every argument is a letter or a closed group and the input has no environments or brackets
RefTake(b) == LET s == Skip(b) IN
   IF s = <<>> THEN [ok |-> FALSE, arg |-> <<>>, rest |-> <<>>]
   ELSE IF Head(s).k \in {"a", "b"} THEN [ok |-> TRUE, arg |-> <<Head(s)>>, rest |-> Tail(s)]
   ELSE IF Head(s).k = "{" THEN LET r == Collect(Tail(s), 1, "}", <<>>) IN [ok |-> r.found, arg |-> r.arg, rest |-> r.rest]
   ELSE [ok |-> FALSE, arg |-> <<>>, rest |-> <<>>]
RECURSIVE Ref(_)
Ref(b) ==
   IF b = <<>> THEN [ok |-> TRUE, txt |-> <<>>]
   ELSE LET t == Head(b) IN
     IF t.k \in {"a", "b"} THEN LET r == Ref(Tail(b)) IN [ok |-> r.ok, txt |-> <<t.k>> \o r.txt]
     ELSE IF t.k \in {"sp", "par", "cm"} THEN Ref(Tail(b))
     ELSE IF t.k = "{" THEN LET g == Collect(Tail(b), 1, "}", <<>>) IN
                            IF ~g.found THEN [ok |-> FALSE, txt |-> <<>>]
                            ELSE LET x == Ref(g.arg) y == Ref(g.rest) IN [ok |-> x.ok /\ y.ok, txt |-> x.txt \o y.txt]
     ELSE IF t.k = "m0" THEN LET r == Ref(Skip(Tail(b))) IN [ok |-> r.ok, txt |-> <<"x">> \o r.txt]
     ELSE IF t.k \in {"m1", "mn", "md"} THEN
        LET a == RefTake(Tail(b)) IN
        IF ~a.ok THEN [ok |-> FALSE, txt |-> <<>>]
        ELSE LET x == Ref(a.arg) r == Ref(a.rest) IN
             [ok |-> x.ok /\ r.ok, txt |-> (IF t.k = "md" THEN x.txt \o x.txt ELSE <<"x">> \o x.txt \o <<"y">>) \o r.txt]
     ELSE IF t.k = "m2" THEN
        LET a == RefTake(Tail(b)) IN
        IF ~a.ok THEN [ok |-> FALSE, txt |-> <<>>]
        ELSE LET c == RefTake(a.rest) IN
             IF ~c.ok THEN [ok |-> FALSE, txt |-> <<>>]
             ELSE LET x == Ref(a.arg) y == Ref(c.arg) r == Ref(c.rest) IN [ok |-> x.ok /\ y.ok /\ r.ok, txt |-> y.txt \o x.txt \o r.txt]
     ELSE IF t.k = "mo" THEN
        LET a == RefTake(Tail(b)) IN
        IF ~a.ok THEN [ok |-> FALSE, txt |-> <<>>]
        ELSE LET x == Ref(a.arg) r == Ref(a.rest) IN [ok |-> x.ok /\ r.ok, txt |-> <<"d", "x">> \o x.txt \o r.txt]
     ELSE [ok |-> FALSE, txt |-> <<>>]
RECURSIVE LettersOf(_)
LettersOf(ts) == IF ts = <<>> THEN <<>> ELSE (IF Head(ts).k \in {"a", "b", "x", "y", "d"} THEN <<Head(ts).k>> ELSE <<>>) \o LettersOf(Tail(ts))

\* ---- properties of a finished run (also evaluated on what the real code returned, see ExpandTrace) -----------------------
\* a token that is not marked as generated is a token of the input, with its own position
PosKeptOn(res, org) == \A i \in 1..Len(res) : (~res[i].f /\ res[i].k \notin {"act", "void"}) => InSeq(res[i], org)
\* a generated token lies in the span of a construct of the input
FixInSpanOn(res, sp) == \A i \in 1..Len(res) : res[i].f => \E s \in sp : s.lo <= res[i].p /\ res[i].p <= s.hi
\* every position is a position of the input
PosInInputOn(res, org) == \A i \in 1..Len(res) : 1 <= res[i].p /\ res[i].p <= Len(org)
\* no control sequence survives
NoCallLeftOn(res) == \A i \in 1..Len(res) : res[i].k \notin Known \cup {"un", "bg", "en", "{", "}", "cm"}
\* TeX substitution, in order
SubstOn(res, org) == LET r == Ref(org) IN r.ok => LettersOf(res) = r.txt
\* unknowns: each name once; \munk is listed iff it occurs; only undefined names are listed
UnknownsOn(unk, org) == /\ \A i, j \in 1..Len(unk) : unk[i] = unk[j] => i = j
                        /\ \A i \in 1..Len(unk) : ~EnvKnown(unk[i]) /\ unk[i] \notin Known
                        /\ InSeq("un", unk) <=> \E i \in 1..Len(org) : org[i].k = "un"
Done == phase = "done" /\ oom = "no"
PosKept == Done => PosKeptOn(result, orig)
FixInSpan == Done => FixInSpanOn(result, spans)
PosInInput == Done => PosInInputOn(result, orig)
NoCallLeft == Done => NoCallLeftOn(result)
Subst == Done => SubstOn(result, orig)
Unknowns == Done => UnknownsOn(unknowns, orig)
\* only a macro that doubles its argument can make the expansion run away
DivergeOnlyByDoubling == oom = "diverge" => \E i \in 1..Len(orig) : orig[i].k = "md"
Terminates == (phase = "run") ~> (phase = "done")
Dump == phase = "done" => PrintT("@@" \o ToJson([toks |-> orig, oom |-> oom]))
=============================================================================
