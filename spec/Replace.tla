------------------------------ MODULE Replace ------------------------------
(* C13: phrase replacement on (text, position list).  The statement is a     *)
(* functional specification; this module is its declarative form.            *)
(*   rule line:  words  &  replacement words      (# starts a comment,       *)
(*               lines without a left-hand side are ignored)                 *)
(*   a phrase matches where its words stand in the text, separated by white  *)
(*   space that contains no blank line (blanks/tabs, at most one line break),*)
(*   at a word boundary where the phrase begins / ends with a letter;        *)
(*   matches are taken leftmost, non-overlapping, per rule, rules in order.  *)
(*   inserted characters take the positions of the phrase, in order, the     *)
(*   last one repeated if the replacement is longer.                         *)
EXTENDS Chars, Naturals, Sequences, FiniteSets, TLC

IsAlphaCh(c) == IsAsciiLetter(c) \/ c \in {"U+00E4", "U+0416"}      \* str.isalpha on the model alphabet
IsWordCh(c) == IsAlphaCh(c) \/ IsDecimal(c) \/ c = "_"              \* regex \w
IsBlankTab(c) == c \in {" ", TAB}
SplitSpace(c) == c \in {" ", TAB, NL, "U+000B", "U+000C", "CR", NBSP, NNBSP}   \* str.split() separators

\* ---- rule parsing -------------------------------------------------------
RECURSIVE CutComment(_, _)
CutComment(l, i) == IF i > Len(l) THEN l ELSE IF l[i] = "#" THEN SubSeq(l, 1, i-1) ELSE CutComment(l, i+1)
RECURSIVE Words(_, _, _)
Words(l, i, cur) ==
  IF i > Len(l) THEN (IF cur = <<>> THEN <<>> ELSE <<cur>>)
  ELSE IF SplitSpace(l[i]) THEN (IF cur = <<>> THEN <<>> ELSE <<cur>>) \o Words(l, i+1, <<>>)
  ELSE Words(l, i+1, Append(cur, l[i]))
RECURSIVE IndexOfAmp(_, _)
IndexOfAmp(ws, i) == IF i > Len(ws) THEN 0 ELSE IF ws[i] = <<"&">> THEN i ELSE IndexOfAmp(ws, i+1)
RECURSIVE JoinBlank(_)
JoinBlank(ws) == IF ws = <<>> THEN <<>> ELSE IF Len(ws) = 1 THEN ws[1] ELSE ws[1] \o <<" ">> \o JoinBlank(Tail(ws))
\* -> [ok, lhs (sequence of words), rhs (characters)]; ok = FALSE: the line is ignored.
\* Lines that have words but no "&" are outside the statement (HasAmp = FALSE)
ParseRule(line) ==
  LET ws == Words(CutComment(line, 1), 1, <<>>)
      k == IndexOfAmp(ws, 1) IN
  IF k = 0 THEN [ok |-> FALSE, amp |-> ws = <<>>, lhs |-> <<>>, rhs |-> <<>>]
  ELSE IF k = 1 THEN [ok |-> FALSE, amp |-> TRUE, lhs |-> <<>>, rhs |-> <<>>]
  ELSE [ok |-> TRUE, amp |-> TRUE, lhs |-> SubSeq(ws, 1, k-1), rhs |-> JoinBlank(SubSeq(ws, k+1, Len(ws)))]

\* ---- matching -----------------------------------------------------------
LitAt(txt, i, w) == i + Len(w) - 1 <= Len(txt) /\ \A k \in 1..Len(w) : txt[i+k-1] = w[k]
RECURSIVE SepEnd(_, _, _, _)
\* end (exclusive index) of an admissible separator starting at i, or 0: blanks/tabs with at most one line break, not empty
SepEnd(txt, i, nls, n) ==
  IF i <= Len(txt) /\ IsBlankTab(txt[i]) THEN SepEnd(txt, i+1, nls, n+1)
  ELSE IF i <= Len(txt) /\ txt[i] = NL /\ nls = 0 THEN SepEnd(txt, i+1, 1, n+1)
  ELSE IF n > 0 THEN i ELSE 0
RECURSIVE PhraseEnd(_, _, _, _)
\* exclusive end index of the phrase ws[k..] matched at i, or 0
PhraseEnd(txt, i, ws, k) ==
  IF ~LitAt(txt, i, ws[k]) THEN 0
  ELSE LET e == i + Len(ws[k]) IN
       IF k = Len(ws) THEN e
       ELSE LET s == SepEnd(txt, e, 0, 0) IN IF s = 0 THEN 0 ELSE PhraseEnd(txt, s, ws, k+1)
Boundary(txt, i) ==        \* regex \b between position i-1 and i (1-based index of the character after the boundary)
  LET l == IF i > 1 THEN IsWordCh(txt[i-1]) ELSE FALSE
      r == IF i <= Len(txt) THEN IsWordCh(txt[i]) ELSE FALSE IN l # r
MatchEnd(txt, i, ws) ==
  LET e == PhraseEnd(txt, i, ws, 1)
      first == ws[1][1]
      last == ws[Len(ws)][Len(ws[Len(ws)])] IN
  IF e = 0 THEN 0
  ELSE IF IsAlphaCh(first) /\ ~Boundary(txt, i) THEN 0
  ELSE IF IsAlphaCh(last) /\ ~Boundary(txt, e) THEN 0
  ELSE e

\* ---- substitution as a left-to-right machine -----------------------------
\* state: cursor i, output text and positions
RECURSIVE Sub(_, _, _, _, _, _, _)
Sub(txt, pos, i, ws, rhs, ot, op) ==
  IF i > Len(txt) THEN [txt |-> ot, pos |-> op]
  ELSE LET e == MatchEnd(txt, i, ws) IN
    IF e = 0 THEN Sub(txt, pos, i+1, ws, rhs, Append(ot, txt[i]), Append(op, pos[i]))
    ELSE LET m == e - i
             r == Len(rhs)
             np == [k \in 1..r |-> IF k <= m THEN pos[i+k-1] ELSE pos[i+m-1]] IN
         Sub(txt, pos, e, ws, rhs, ot \o rhs, op \o np)
ApplyRule(txt, pos, line) ==
  LET r == ParseRule(line) IN IF r.ok THEN Sub(txt, pos, 1, r.lhs, r.rhs, <<>>, <<>>) ELSE [txt |-> txt, pos |-> pos]
RECURSIVE ApplyAll(_, _, _)
ApplyAll(txt, pos, lines) ==
  IF lines = <<>> THEN [txt |-> txt, pos |-> pos]
  ELSE LET r == ApplyRule(txt, pos, Head(lines)) IN ApplyAll(r.txt, r.pos, Tail(lines))
InClaim(lines) == \A k \in 1..Len(lines) : ParseRule(lines[k]).amp

C13(txt, pos, lines, otxt, opos) ==
  IF ~InClaim(lines) THEN "excluded"
  ELSE IF Len(otxt) # Len(opos) THEN "length-text-" \o ToString(Len(otxt)) \o "-positions-" \o ToString(Len(opos))
  ELSE LET r == ApplyAll(txt, pos, lines) IN
       IF otxt # r.txt THEN "text-differs-from-specified-replacement"
       ELSE IF opos # r.pos THEN "positions-differ-from-specified-replacement"
       ELSE "ok"
=============================================================================
