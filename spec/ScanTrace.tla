------------------------------ MODULE ScanTrace ------------------------------
(* Trace validation of the real scanner against Scanner.tla, reusing its       *)
(* actions: for every recorded run {id, src, toks} of Scanner.scan the model   *)
(* scans the same source token by token (action Scan) and every token the code *)
(* logged must be the token the model produces at that step; the invariants of *)
(* Scanner.tla (slice equation, tiling, longest special, comments) are checked *)
(* on the way.  One verdict per record, many records per TLC run.              *)
EXTENDS Scanner, IOUtils
Recs == ndJsonDeserialize(IOEnv.TRACE_FILE)
VARIABLES r, l, bad
tvars == <<vars, r, l, bad>>
Load(k) == IF k <= Len(Recs) THEN Recs[k].src ELSE <<>>
TInit == r = 1 /\ l = 1 /\ bad = "" /\ src = Load(1) /\ n = 0 /\ phase = "scan" /\ pos = 1 /\ toks = <<>>
\* one token of the model, compared with the l-th logged token
TScan == /\ r <= Len(Recs) /\ Scan /\ l' = l + 1 /\ r' = r
         /\ bad' = IF bad # "" THEN bad
                   ELSE IF l > Len(Recs[r].toks) THEN "code-logged-fewer-tokens"
                   ELSE IF toks'[Len(toks')] # Recs[r].toks[l] THEN "token-" \o ToString(l) \o "-differs"
                   ELSE ""
\* end of this source: verdict, next record
TNext == /\ r <= Len(Recs) /\ phase = "scan" /\ pos > Len(src)
         /\ PrintT("@V" \o ToJson([id |-> Recs[r].id, bind |-> "ok",
                     scan |-> IF bad # "" THEN bad ELSE IF Len(Recs[r].toks) # Len(toks) THEN "code-logged-more-tokens" ELSE "ok"]))
         /\ r' = r + 1 /\ l' = 1 /\ bad' = "" /\ src' = Load(r + 1) /\ pos' = 1 /\ toks' = <<>> /\ UNCHANGED <<n, phase>>
TSpec == TInit /\ [][TScan \/ TNext]_tvars
=============================================================================
