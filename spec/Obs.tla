-------------------------------- MODULE Obs --------------------------------
(* Trace validation of filter observations.  The harness ran the real        *)
(* yalafi.tex2txt on documents and wrote one record per run                  *)
(*   {id, doc, src, plain, map}                                              *)
(* into the ndjson file named by the environment variable TRACE_FILE.  This  *)
(* spec consumes the records one per step, recomputes the reference meaning  *)
(* of doc (module Doc), insists that the text the code was given is the      *)
(* text of that document, and evaluates the Level A predicates (Align) on    *)
(* the real observation.  One verdict line (tag @V) per record.              *)
EXTENDS Doc, Align, Json, IOUtils
Recs == ndJsonDeserialize(IOEnv.TRACE_FILE)
VARIABLE i
Init == i = 1
Hidden == {"q", "k", "z", "y"}
Markup == {"\\", "{", "}", "$"}
\* C09, supply routes: the first r.ndef symbols (definitions) were not part of the text given to the filter
\* but supplied through --defs or a file read by \LTinput; r.prefix is what stands in their place.
\* The expectation is that of the complete document, positions shifted by the constant difference.
Shifted(exp0, k, p) ==
  [exp0 EXCEPT !.src = SubSeq(@, k+1, Len(@)),
               !.items = [m \in 1..Len(exp0.items) |->
                  IF exp0.items[m].t \in {"c","f","g"} THEN [exp0.items[m] EXCEPT !.lo = (@ + p) - k, !.hi = (@ + p) - k] ELSE exp0.items[m]]]
Judge(r) ==
  LET exp0 == Ref(r.doc)
      k == Len(ConcAll(SubSeq(r.doc, 1, r.ndef)))
      sh == Shifted(exp0, k, Len(r.prefix))
      exp == [sh EXCEPT !.src = r.prefix \o @] IN
  IF exp.src # r.src THEN [id |-> r.id, bind |-> "source-text-differs-from-document"]
  ELSE LET v == Verdict(exp, r.plain, r.map)
           allowed == {exp.items[m].ch : m \in {m \in 1..Len(exp.items) : exp.items[m].t \in {"c","f"}}}
           lk == Leak(r.plain, (Hidden \cup Markup) \ allowed) IN
       [id |-> r.id, bind |-> "ok", feat |-> exp.feat, c01 |-> v.c01, c02 |-> v.c02,
        c03 |-> IF v.c03 = "ok" /\ lk # "ok" THEN lk ELSE v.c03, c04 |-> v.c04, c05 |-> v.c05]
Next == i <= Len(Recs) /\ i' = i + 1 /\ PrintT("@V" \o ToJson(Judge(Recs[i])))
Spec == Init /\ [][Next]_i
Done == i = Len(Recs) + 1
=============================================================================
