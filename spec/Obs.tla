-------------------------------- MODULE Obs --------------------------------
(* Trace validation of filter observations.  The harness ran the real        *)
(* yalafi.tex2txt on documents and wrote one record per run                  *)
(*   {id, doc, src, plain, map}                                              *)
(* into the ndjson file named by the environment variable TRACE_FILE.  This  *)
(* spec consumes the records one per step, recomputes the reference meaning  *)
(* of doc (module Doc), insists that the text the code was given is the      *)
(* text of that document, and evaluates the Level A predicates (Align) on    *)
(* the real observation.  One verdict line (tag @V) per record.              *)
EXTENDS Doc, Align, Json, IOUtils
Recs == ndJsonDeserialize(IOEnv.TRACE_FILE)
VARIABLE cur
Init == cur = 1
Hidden == {"j", "k", "z", "y", "x"}
Max(S) == CHOOSE x \in S : \A y \in S : y <= x
SegIdx(map, lo, hi) == {j \in 1..Len(map) : lo <= map[j] /\ map[j] <= hi}
SegTxt(plain, S) == [k \in 1..Cardinality(S) |-> plain[Min(S) + k - 1]]

(***************************************************************************)
(* C10: every inline formula is one placeholder of the language's inline   *)
(* collection (+ its closing punctuation mark, + a blank where it starts / *)
(* ends with maths space), successive formulas get successive placeholders *)
(***************************************************************************)
\* the characters that map into the formula: its non-space characters form one run  placeholder [+ punctuation];
\* a blank stands directly before / after it where the formula starts / ends with maths space.  (White space of an
\* enclosing construct - flow separators, the full stop of a heading - may legitimately map to the formula's delimiters.)
RECURSIVE C10Walk(_, _, _, _, _, _)
C10Walk(fml, k, plain, map, lk, prev) ==
  IF k > Len(fml) THEN "ok"
  ELSE LET f == fml[k]
           S == SegIdx(map, f.lo, f.hi)
           T == {j \in S : ~IsSpace(plain[j])} IN
       IF T = {} THEN "formula-" \o ToString(k) \o "-left-nothing"
       ELSE IF T # Min(T)..Max(T) THEN "formula-" \o ToString(k) \o "-text-not-contiguous"
       ELSE LET txt == SegTxt(plain, T)
                n == Len(txt) - (IF f.punct # "" THEN 1 ELSE 0)
                core == IF n >= 1 /\ (f.punct = "" \/ txt[Len(txt)] = f.punct) THEN SubSeq(txt, 1, n) ELSE <<"?">>
                ix == IndexIn(InlineColl(lk), core)
                a == Min(T) - 1
                b == Max(T) + 1 IN
            IF ix = 0 THEN "formula-" \o ToString(k) \o "-not-one-placeholder-with-its-punctuation"
            ELSE IF f.sp1 /\ ~(a >= 1 /\ a \in S /\ plain[a] = " ") THEN "formula-" \o ToString(k) \o "-blank-before-missing"
            ELSE IF f.sp2 /\ ~(b <= Len(plain) /\ b \in S /\ plain[b] = " ") THEN "formula-" \o ToString(k) \o "-blank-after-missing"
            ELSE IF prev # 0 /\ ix # (prev % 6) + 1 THEN "formula-" \o ToString(k) \o "-placeholder-not-successor-of-previous"
            ELSE C10Walk(fml, k+1, plain, map, lk, ix)

(***************************************************************************)
(* C11: a displayed equation is rendered by the documented scheme          *)
(***************************************************************************)
StartsWith(txt, j, w) == j + Len(w) - 1 <= Len(txt) /\ \A i \in 1..Len(w) : txt[j+i-1] = w[i]
\* match pieces against the text of the equation; base = 0 or (index of the placeholder that stands for relative number 0)
RECURSIVE PMatch(_, _, _, _, _, _, _, _)
PMatch(ps, i, txt, pos, j, lk, base, e) ==
  IF i > Len(ps) THEN (IF j = Len(txt) + 1 THEN [v |-> "ok", base |-> base] ELSE [v |-> "equation-" \o ToString(e) \o "-extra-text@" \o ToString(j), base |-> base])
  ELSE LET p == ps[i] IN
    IF p.t \in {"lit", "cp"} THEN
       IF j > Len(txt) \/ txt[j] # p.ch THEN [v |-> "equation-" \o ToString(e) \o "-expected-" \o p.ch \o "@" \o ToString(j), base |-> base]
       ELSE IF p.t = "cp" /\ pos[j] # p.p THEN [v |-> "equation-" \o ToString(e) \o "-text-part-position@" \o ToString(j), base |-> base]
       ELSE PMatch(ps, i+1, txt, pos, j+1, lk, base, e)
    ELSE IF p.t = "op" THEN
       LET w == OpWord(lk, p.ch) IN
       IF ~StartsWith(txt, j, w) THEN [v |-> "equation-" \o ToString(e) \o "-operator-word-missing@" \o ToString(j), base |-> base]
       ELSE PMatch(ps, i+1, txt, pos, j + Len(w), lk, base, e)
    ELSE \* placeholder
       LET ix == IF j + 4 <= Len(txt) THEN IndexIn(DisplayColl(lk), SubSeq(txt, j, j+4)) ELSE 0 IN
       IF ix = 0 THEN [v |-> "equation-" \o ToString(e) \o "-placeholder-missing@" \o ToString(j), base |-> base]
       ELSE IF p.t = "phany" THEN PMatch(ps, i+1, txt, pos, j+5, lk, base, e)
       ELSE LET b == IF base = 0 THEN ((ix + 600 - p.d - 1) % 6) + 1 ELSE base      \* index that relative number 0 would have
                want == ((b - 1 + p.d) % 6) + 1 IN
            IF ix # want THEN [v |-> "equation-" \o ToString(e) \o "-placeholder-rotation@" \o ToString(j), base |-> b]
            ELSE PMatch(ps, i+1, txt, pos, j+5, lk, b, e)
RECURSIVE C11Walk(_, _, _, _, _, _, _)
C11Walk(eqs, e, plain, map, lk, simple, base) ==
  IF e > Len(eqs) THEN "ok"
  ELSE LET q == eqs[e]
           S == SegIdx(map, q.lo, q.hi) IN
       IF S = {} THEN "equation-" \o ToString(e) \o "-left-nothing"
       ELSE IF S # Min(S)..Max(S) THEN "equation-" \o ToString(e) \o "-text-not-contiguous"
       ELSE LET txt == SegTxt(plain, S)
                pos == [k \in 1..Cardinality(S) |-> map[Min(S) + k - 1]]
                r == PMatch(IF simple THEN q.simple ELSE q.pieces, 1, txt, pos, 1, lk, base, e) IN
            IF r.v # "ok" THEN r.v ELSE C11Walk(eqs, e+1, plain, map, lk, simple, r.base)

Markup == {"\\", "{", "}", "$"}
\* C09, supply routes: the first r.ndef symbols (definitions) were not part of the text given to the filter
\* but supplied through --defs or a file read by \LTinput; r.prefix is what stands in their place.
\* The expectation is that of the complete document, positions shifted by the constant difference.
Shifted(exp0, k, p) ==
  [exp0 EXCEPT !.src = SubSeq(@, k+1, Len(@)),
               !.items = [m \in 1..Len(exp0.items) |->
                  IF exp0.items[m].t \in {"c","f","g"} THEN [exp0.items[m] EXCEPT !.lo = (@ + p) - k, !.hi = (@ + p) - k] ELSE exp0.items[m]]]
(***************************************************************************)
(* C08: error marks                                                        *)
(***************************************************************************)
MarkWord == <<"L","A","T","E","X","X","X","E","R","R","O","R">>
MarkStart == <<"L","A","T","E","X","X">>
C08(exp, plain, map, diags) ==
  LET full == {j \in 1..Len(plain) : StartsWith(plain, j, MarkWord)}
      part == {j \in 1..Len(plain) : StartsWith(plain, j, MarkStart)} IN
  IF exp.fault = <<>> THEN
     (IF Len(diags) > 0 THEN "diagnostic-on-well-formed-document"
      ELSE IF part # {} THEN "mark-on-well-formed-document" ELSE "ok")
  ELSE LET f == exp.fault[1].f
           lost == {m \in 1..Len(exp.items) : exp.items[m].t = "c" /\ exp.items[m].lo > exp.fault[1].end
                       /\ ~\E j \in 1..Len(plain) : plain[j] = exp.items[m].ch /\ map[j] = exp.items[m].lo} IN
     IF Len(diags) = 0 THEN (IF part # {} THEN "mark-without-diagnostic" ELSE "fault-without-diagnostic")
     ELSE IF diags[1] # <<LineOf(exp.src, f), ColOf(exp.src, f)>>
          THEN "diagnostic-at-" \o ToString(diags[1][1]) \o ":" \o ToString(diags[1][2]) \o "-expected-" \o ToString(LineOf(exp.src, f)) \o ":" \o ToString(ColOf(exp.src, f))
     ELSE IF full = {} THEN "complete-mark-missing"
     ELSE IF map[Min(full)] # f + 1 THEN "mark-mapped-to-" \o ToString(map[Min(full)]) \o "-expected-" \o ToString(f + 1)
     ELSE IF lost # {} THEN "text-after-fault-lost:" \o exp.items[Min(lost)].ch
     ELSE "ok"

(***************************************************************************)
(* C19: the unknowns list                                                  *)
(***************************************************************************)
RECURSIVE SplitNL(_, _, _)
SplitNL(s, k, acc) == IF k > Len(s) THEN <<acc>> ELSE IF s[k] = NL THEN <<acc>> \o SplitNL(s, k+1, <<>>) ELSE SplitNL(s, k+1, Append(acc, s[k]))
C19(exp, plain) ==
  LET ls == SplitNL(plain, 1, <<>>) IN
  IF Len(plain) = 0 \/ plain[Len(plain)] # NL THEN "list-not-terminated-by-line-break"
  ELSE LET names == SelectSeq(SubSeq(ls, 1, Len(ls) - 1), LAMBDA l : l # <<>>) IN
       IF names = exp.unk THEN "ok"
       ELSE IF \E k \in 1..Len(names) : ~\E m \in 1..Len(exp.unk) : exp.unk[m] = names[k] THEN "lists-a-name-that-is-not-an-undeclared-name-used-in-text"
       ELSE IF \E m \in 1..Len(exp.unk) : ~\E k \in 1..Len(names) : exp.unk[m] = names[k] THEN "undeclared-name-missing"
       ELSE "order-or-multiplicity-differs"

Judge(r) ==
  LET exp0 == RefMode(r.doc, IF r.extr THEN "extr" ELSE "normal")
      k == Len(ConcAll(SubSeq(r.doc, 1, r.ndef)))
      sh == Shifted(exp0, k, Len(r.prefix))
      exp == [sh EXCEPT !.src = r.prefix \o @] IN
  IF exp.src # r.src THEN [id |-> r.id, bind |-> "source-text-differs-from-document"]
  ELSE IF r.unkn THEN [id |-> r.id, bind |-> "ok", feat |-> exp.feat, c19 |-> C19(exp, r.plain)]
  ELSE LET v == Verdict(exp, r.plain, r.map)
           allowed == {exp.items[m].ch : m \in {m \in 1..Len(exp.items) : exp.items[m].t \in {"c","f"}}}
           lk == Leak(r.plain, (Hidden \cup Markup) \ allowed) IN
       [id |-> r.id, bind |-> "ok", feat |-> exp.feat, c01 |-> v.c01, c02 |-> v.c02,
        c03 |-> IF v.c03 = "ok" /\ lk # "ok" THEN lk ELSE v.c03, c04 |-> v.c04, c05 |-> v.c05,
        c08 |-> IF Len(r.plain) # Len(r.map) THEN "skipped" ELSE C08(exp, r.plain, r.map, r.diags),
        c18 |-> IF ~r.extr THEN "skipped" ELSE IF v.c03 # "ok" THEN v.c03 ELSE IF lk # "ok" THEN lk ELSE v.c02,
        c10 |-> IF Len(r.plain) # Len(r.map) THEN "skipped" ELSE C10Walk(exp.fml, 1, r.plain, r.map, LangKey(r.lang), 0),
        c11 |-> IF Len(r.plain) # Len(r.map) THEN "skipped" ELSE C11Walk(exp.eqs, 1, r.plain, r.map, LangKey(r.lang), r.seqs, 0)]
Next == cur <= Len(Recs) /\ cur' = cur + 1 /\ PrintT("@V" \o ToJson(Judge(Recs[cur])))
Spec == Init /\ [][Next]_cur
Done == cur = Len(Recs) + 1
=============================================================================
