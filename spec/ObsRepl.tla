------------------------------ MODULE ObsRepl ------------------------------
(* trace validation for C13: records {id, txt, pos, lines, otxt, opos} of real calls of utils.replace_phrases *)
EXTENDS Replace, Json, IOUtils
Recs == ndJsonDeserialize(IOEnv.TRACE_FILE)
VARIABLE i
Init == i = 1
Next == i <= Len(Recs) /\ i' = i + 1
        /\ LET r == Recs[i] IN PrintT("@V" \o ToJson([id |-> r.id, bind |-> "ok", c13 |-> C13(r.txt, r.pos, r.lines, r.otxt, r.opos)]))
Spec == Init /\ [][Next]_i
=============================================================================
