------------------------------- MODULE KeyVals -------------------------------
(* LEVEL B: the key-value parser of the expander (parser.py parse_keyvals_list, *)
(* used for package and class options, \newglossaryentry and the .glsdefs       *)
(* reader): one action per entry "key = value ,".  Mechanisms modelled: a key   *)
(* is the run of plain text tokens up to "=" or ","; a key without "=" has no   *)
(* value; whatever stands where "=" is expected is skipped; a value runs to the *)
(* next top-level comma, a brace group protects commas and blanks and is kept   *)
(* with its braces, {} gives nothing; a group that is not closed is pushed back *)
(* behind an error mark by arg_buffer and its opening brace is skipped (the     *)
(* loop once did not, fix 0740d9e: the constant SkipOpen = FALSE gives the old  *)
(* design, for which TLC shows the endless run); trailing blanks are removed.   *)
(* TLC explores ALL token lists of up to MaxToks tokens over the alphabet.      *)
EXTENDS Naturals, Sequences, FiniteSets, TLC, Json
CONSTANTS MaxToks, SkipOpen
Kinds == {"a", "b", "=", ",", "sp", "{", "}", "m", "cm"}
Tok(k, p) == [k |-> k, p |-> p]
Mark(p) == [k |-> "mark", p |-> p]
IsSkip(t) == t.k \in {"sp", "cm"}
IsKeyTok(t) == t.k \in {"a", "b", "mark"}          \* type TextToken and neither "=" nor ","
VARIABLES buf, vals, phase, orig, steps, skipped
vars == <<buf, vals, phase, orig, steps, skipped>>
Init == buf = <<>> /\ vals = <<>> /\ phase = "build" /\ orig = <<>> /\ steps = 0 /\ skipped = {}
AddTok(k) == phase = "build" /\ Len(buf) < MaxToks /\ buf' = Append(buf, Tok(k, Len(buf) + 1)) /\ UNCHANGED <<vals, phase, orig, steps, skipped>>
Start == phase = "build" /\ phase' = "run" /\ orig' = buf /\ UNCHANGED <<buf, vals, steps, skipped>>

RECURSIVE Skip(_)
Skip(b) == IF b # <<>> /\ IsSkip(Head(b)) THEN Skip(Tail(b)) ELSE b
RECURSIVE KeyLoop(_, _)
KeyLoop(b, key) == IF b # <<>> /\ IsKeyTok(Head(b)) THEN KeyLoop(Tail(b), Append(key, Head(b))) ELSE [key |-> key, rest |-> b]
RECURSIVE Collect(_, _, _)
Collect(b, lev, acc) ==
   IF b = <<>> THEN [found |-> FALSE, arg |-> acc, rest |-> <<>>]
   ELSE LET t == Head(b)
            lev1 == IF t.k = "{" THEN lev + 1 ELSE IF t.k = "}" THEN lev - 1 ELSE lev IN
        IF t.k = "}" /\ lev1 = 0 THEN [found |-> TRUE, arg |-> acc, rest |-> Tail(b)]
        ELSE Collect(Tail(b), lev1, Append(acc, t))
\* the value loop; fuel bounds the old design, in which an unclosed group is read again and again
RECURSIVE ValLoop(_, _, _)
ValLoop(b, val, fuel) ==
   IF b = <<>> \/ Head(b).k = "," \/ fuel = 0 THEN [val |-> val, rest |-> b, out |-> fuel = 0]
   ELSE IF Head(b).k = "{" THEN
      LET open == Head(b)
          r == Collect(Tail(b), 1, <<>>) IN
      IF r.found THEN
         LET seq == IF r.arg = <<>> THEN <<>> ELSE <<open>> \o r.arg \o <<Tok("}", r.arg[Len(r.arg)].p)>> IN
         ValLoop(r.rest, val \o seq, fuel - 1)
      ELSE \* arg_buffer has pushed back  open, mark, tokens ; it hands over the mark
         LET seq == <<open, Mark(open.p), Tok("}", open.p)>>
             pushed == <<open, Mark(open.p)>> \o r.arg IN
         ValLoop(IF SkipOpen THEN Tail(pushed) ELSE pushed, val \o seq, fuel - 1)
   ELSE ValLoop(Tail(b), Append(val, Head(b)), fuel - 1)
Trim(v) == IF v # <<>> /\ v[Len(v)].k = "sp" THEN SubSeq(v, 1, Len(v) - 1) ELSE v
Fuel == 3 * MaxToks + 3
Entry == /\ phase = "run"
         /\ LET b1 == Skip(buf) IN
            IF b1 = <<>> THEN phase' = "done" /\ UNCHANGED <<buf, vals, steps, skipped>>
            ELSE LET k == KeyLoop(b1, <<>>)
                     b3 == Skip(k.rest) IN
                 IF b3 = <<>> \/ Head(b3).k = "," THEN
                    /\ vals' = Append(vals, [key |-> k.key, has |-> FALSE, val |-> <<>>])
                    /\ buf' = IF b3 = <<>> THEN <<>> ELSE Tail(b3)
                    /\ steps' = steps + 1 /\ UNCHANGED <<phase, skipped>>
                 ELSE LET v == ValLoop(Skip(Tail(b3)), <<>>, Fuel) IN
                    /\ vals' = Append(vals, [key |-> k.key, has |-> TRUE, val |-> Trim(v.val)])
                    /\ buf' = IF v.rest = <<>> THEN <<>> ELSE Tail(v.rest)
                    /\ steps' = steps + 1
                    /\ skipped' = skipped \cup {Head(b3)}          \* whatever stands where "=" is expected
                    /\ phase' = IF v.out THEN "endless" ELSE phase
         /\ UNCHANGED orig
Next == (\E k \in Kinds : AddTok(k)) \/ Start \/ Entry
Spec == Init /\ [][Next]_vars /\ WF_vars(Entry)

\* ---- properties ---------------------------------------------------------------------------
InKeyOrVal(t) == \E e \in 1..Len(vals) : (\E x \in 1..Len(vals[e].key) : vals[e].key[x] = t) \/ (\E x \in 1..Len(vals[e].val) : vals[e].val[x] = t)
Times(t) == LET RECURSIVE Cnt(_, _)
                Cnt(s, i) == IF i > Len(s) THEN 0 ELSE (IF s[i] = t THEN 1 ELSE 0) + Cnt(s, i + 1)
                RECURSIVE Sum(_)
                Sum(e) == IF e > Len(vals) THEN 0 ELSE Cnt(vals[e].key, 1) + Cnt(vals[e].val, 1) + Sum(e + 1) IN Sum(1)
\* the loop never runs away (with SkipOpen = FALSE TLC finds the input of the old hang)
NeverEndless == phase # "endless"
\* every letter and every macro of the input is in exactly one key or value, unless it stood where "=" was expected
Conserved == phase = "done" => \A x \in 1..Len(orig) : orig[x].k \in {"a", "b", "m"} => Times(orig[x]) <= 1
\* words are only lost at the place of "=" : a letter that is preceded (skipping blanks) by a key and is not "=" itself
LostOnlyAtEquals == phase = "done" => \A x \in 1..Len(orig) : (orig[x].k \in {"a", "b", "m"} /\ Times(orig[x]) = 0) => orig[x] \in skipped
\* keys hold plain text only
KeysPlain == \A e \in 1..Len(vals) : \A x \in 1..Len(vals[e].key) : IsKeyTok(vals[e].key[x])
\* each entry consumes input: the number of entries is bounded by the number of tokens
Progress == steps <= Len(orig) + 1
Terminates == (phase = "run") ~> (phase \in {"done", "endless"})
Dump == phase = "done" => PrintT("@@" \o ToJson([toks |-> orig, vals |-> vals]))
=============================================================================
