------------------------------ MODULE ShellObs ------------------------------
(* C14, end to end: trace validation of runs of `python -m yalafi.shell` (and  *)
(* of the server emulation) behind a fake proofreader that flags every run of *)
(* the letter r.flag (C14), or with the shell's own single-letter check on     *)
(* documents whose letters r.flag are all isolated (C20).  Record:             *)
(*  {id, doc, src, blen (UTF-8 length of every source character), mode,       *)
(*   ml, rulethr, mldisable,                                                  *)
(*   parts: [{lang, text}] (non-blank parts of the filter, in order),         *)
(*   log:   [{lang, text, disable}] (what the proofreader was given),         *)
(*   report: [{o, n, line, col, fromy, fromx, toy, tox, word, ctxword}]       *)
(*            (fields a mode does not have are -1 / <<>>)}                    *)
EXTENDS Doc, Integers, Json, IOUtils
Recs == ndJsonDeserialize(IOEnv.TRACE_FILE)
VARIABLE cur
Init == cur = 1
Min(S) == CHOOSE x \in S : \A y \in S : x <= y

\* 0-based offset of (1-based) line l, column c
RECURSIVE LineStart(_, _, _)
LineStart(s, l, i) == IF l = 1 THEN i ELSE IF i >= Len(s) THEN Len(s) ELSE IF s[i+1] = NL THEN LineStart(s, l-1, i+1) ELSE LineStart(s, l, i+1)
OffsetOf(s, l, c) == LineStart(s, l, 0) + c - 1
RECURSIVE Sum(_, _, _)
Sum(f, a, b) == IF a > b THEN 0 ELSE f[a] + Sum(f, a+1, b)
\* column in bytes of 0-based offset o:  bytes of the characters of its line before it
ByteCol(s, blen, o) == Sum(blen, LastNLBefore(s, o) + 1, o)

RECURSIVE Runs(_, _, _, _)
Runs(t, i, inrun, fl) == IF i > Len(t) THEN 0 ELSE IF t[i] = fl THEN (IF inrun THEN 0 ELSE 1) + Runs(t, i+1, TRUE, fl) ELSE Runs(t, i+1, FALSE, fl)
RECURSIVE TotalRuns(_, _, _)
TotalRuns(log, k, fl) == IF k > Len(log) THEN 0 ELSE Runs(log[k].text, 1, FALSE, fl) + TotalRuns(log, k+1, fl)
Words(t) == Runs([i \in 1..Len(t) |-> IF IsSpace(t[i]) THEN " " ELSE "w"], 1, FALSE, "w")

\* source offset and length an entry denotes, by the arithmetic its output format documents
Off(r, e) == CASE r.mode \in {"json", "server"} -> e.o
               [] r.mode \in {"plain", "html"} -> OffsetOf(r.src, e.line, e.col)
               [] r.mode = "xml" -> OffsetOf(r.src, e.fromy + 1, e.fromx + 1)
               [] r.mode = "xml-b" -> Min({o \in 0..Len(r.src) : LineOf(r.src, o) = e.fromy + 1 /\ ByteCol(r.src, r.blen, o) = e.fromx} \cup {Len(r.src) + 5})
EndOff(r, e) ==       \* offset of the last character, or -1 if the format does not tell
     CASE r.mode \in {"json", "server"} -> e.o + e.n - 1
       [] r.mode = "html" -> OffsetOf(r.src, e.line, e.col) + Len(e.word) - 1
       [] r.mode = "xml" -> OffsetOf(r.src, e.toy + 1, e.tox)
       [] r.mode = "xml-b" -> Min({o \in 0..(Len(r.src) - 1) : LineOf(r.src, o) = e.toy + 1 /\ ByteCol(r.src, r.blen, o) + r.blen[o+1] = e.tox} \cup {Len(r.src) + 5})
       [] OTHER -> Off(r, e)

C14(r) ==
  LET exp == Ref(r.doc)
      bpos == {exp.items[m].lo : m \in {m \in 1..Len(exp.items) : exp.items[m].t = "c" /\ exp.items[m].ch = r.flag}}     \* 1-based positions of flagged characters
      All == r.report
      \* (HTML moves a message that overlaps an earlier one - e.g. a word around a footnote and the word inside it - to a separate
      \*  list without column: such entries count as messages, their place is not judged)
      E == SelectSeq(All, LAMBDA e : ~(r.mode = "html" /\ e.col = -1))
      offs == [k \in 1..Len(E) |-> Off(r, E[k])]
      ends == [k \in 1..Len(E) |-> EndOff(r, E[k])] IN
  IF exp.src # r.src THEN "bind:source-text-differs-from-document"
  ELSE IF Len(r.log) # Len(r.parts) \/ \E k \in 1..Len(r.log) : r.log[k].text # r.parts[k].text THEN "submitted-texts-differ-from-the-filter's-parts"
  ELSE IF \E k \in 1..Len(r.log) : r.log[k].lang # r.parts[k].lang THEN "part-submitted-under-another-language-code@" \o ToString(Min({k \in 1..Len(r.log) : r.log[k].lang # r.parts[k].lang}))
  ELSE IF r.ml /\ \E k \in 1..Len(r.log) : (Words(r.log[k].text) <= r.rulethr) # r.log[k].mlrule THEN "rule-options-for-short-parts-wrong@" \o ToString(Min({k \in 1..Len(r.log) : (Words(r.log[k].text) <= r.rulethr) # r.log[k].mlrule}))
  ELSE IF Len(All) # TotalRuns(r.log, 1, r.flag) THEN "number-of-messages-" \o ToString(Len(All)) \o "-flagged-words-" \o ToString(TotalRuns(r.log, 1, r.flag))
  ELSE IF \E k \in 1..Len(E) : offs[k] + 1 \notin bpos THEN "message-not-at-a-flagged-word@" \o ToString(Min({k \in 1..Len(E) : offs[k] + 1 \notin bpos}))
  ELSE IF \E k \in 1..Len(E) : ends[k] + 1 \notin bpos \/ ends[k] < offs[k] THEN "message-length-does-not-end-at-the-flagged-word@" \o ToString(Min({k \in 1..Len(E) : ends[k] + 1 \notin bpos \/ ends[k] < offs[k]}))
  ELSE IF \E k \in 1..(Len(E) - 1) : offs[k] > offs[k+1] THEN "messages-not-ordered-by-position"
  \* (a flagged word of the plain text may enclose a detached flow in the LaTeX file, whose own flagged word then lies inside two spans)
  ELSE IF Len(E) = Len(All) /\ r.mode # "plain" /\ \E p \in bpos : Cardinality({k \in 1..Len(E) : offs[k] + 1 <= p /\ p <= ends[k] + 1}) = 0 THEN "flagged-character-not-covered-by-a-message"
  ELSE IF Len(E) = Len(All) /\ r.mode # "plain" /\ Cardinality({offs[k] : k \in 1..Len(E)}) # Len(E) THEN "two-messages-at-the-same-place"
  ELSE IF \E k \in 1..Len(All) : All[k].ctxword = <<>> \/ \E x \in 1..Len(All[k].ctxword) : All[k].ctxword[x] # r.flag THEN "excerpt-does-not-mark-the-flagged-word"
  ELSE IF r.mode = "html" /\ \E k \in 1..Len(E) : E[k].word # SubSeq(r.src, offs[k] + 1, ends[k] + 1) THEN "highlighted-text-is-not-the-source-span"
  ELSE IF r.mode = "json" /\ \E k \in 1..Len(E) :
            <<E[k].fromy, E[k].fromx>> # <<LineOf(r.src, offs[k]) - 1, ColOf(r.src, offs[k]) - 1>>
            \/ <<E[k].toy, E[k].tox>> # <<LineOf(r.src, ends[k]) - 1, ColOf(r.src, ends[k])>> THEN "json-priv-coordinates-inconsistent-with-offset-and-length"
  ELSE "ok"
Next == cur <= Len(Recs) /\ cur' = cur + 1 /\ PrintT("@V" \o ToJson([id |-> Recs[cur].id, bind |-> "ok", c14 |-> C14(Recs[cur])]))
Spec == Init /\ [][Next]_cur
=============================================================================
