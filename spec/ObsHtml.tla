------------------------------- MODULE ObsHtml -------------------------------
(* C16: trace validation of real HTML reports (genhtml.generate_html, parsed  *)
(* by the harness with html.parser).  Record:                                 *)
(*  {id, src (characters), matches: [[beg, len]], neg (whole file),           *)
(*   rows: [{num, text}] (line cells of the report, num = 0: separator),      *)
(*   hl:   [{row, st, en, mid}] (highlighted ranges in row texts, mid = match)*)
(*   overlaps: [{num, text, mid}], errs (number of markup problems found),    *)
(*   titles_ok (every message / suggestion readable in its attribute),        *)
(*   model: {displayed, overlapped} (prediction of Html.tla)}                 *)
EXTENDS Chars, Naturals, Integers, Sequences, FiniteSets, TLC, Json, IOUtils
Recs == ndJsonDeserialize(IOEnv.TRACE_FILE)
VARIABLE cur
Init == cur = 1
Min(S) == CHOOSE x \in S : \A y \in S : x <= y
Max(S) == CHOOSE x \in S : \A y \in S : y <= x
RECURSIVE SplitLines(_, _, _)
SplitLines(s, i, acc) == IF i > Len(s) THEN (IF acc = <<>> THEN <<>> ELSE <<acc>>)
                         ELSE IF s[i] = NL THEN <<acc>> \o SplitLines(s, i+1, <<>>) ELSE SplitLines(s, i+1, Append(acc, s[i]))
RECURSIVE Expand(_)
Expand(s) == IF s = <<>> THEN <<>> ELSE IF s[1] = TAB THEN <<" "," "," "," "," "," "," "," ">> \o Expand(Tail(s)) ELSE <<s[1]>> \o Expand(Tail(s))
End(m) == m[1] + (IF m[2] < 1 THEN 1 ELSE m[2])
\* the text highlighted for match k: the pieces in consecutive rows, joined by line breaks
Pieces(r, k) == SelectSeq(r.hl, LAMBDA h : h.mid = k)
RECURSIVE Join(_, _, _)
Join(r, ps, i) == IF i > Len(ps) THEN <<>> ELSE
                  (IF i > 1 THEN <<NL>> ELSE <<>>) \o SubSeq(r.rows[ps[i].row].text, ps[i].st + 1, ps[i].en) \o Join(r, ps, i + 1)
SpanOk(got, want) == got = want \/ (want # <<>> /\ want[Len(want)] = NL /\ got = SubSeq(want, 1, Len(want) - 1))
                     \/ (Len(want) >= 1 /\ want[Len(want)] = NL /\ got \o <<NL>> = want)
C16(r) ==
  LET lines == SplitLines(r.src, 1, <<>>)
      nums == [i \in 1..Len(r.rows) |-> r.rows[i].num]
      real == {i \in 1..Len(r.rows) : r.rows[i].num > 0}
      badrow == {i \in real : r.rows[i].num > Len(lines) \/ r.rows[i].text # Expand(lines[r.rows[i].num])}
      M == 1..Len(r.matches)
      inplace(k) == Pieces(r, k) # <<>>
      over(k) == Cardinality({j \in 1..Len(r.overlaps) : r.overlaps[j].mid = k})
      want(k) == Expand(SubSeq(r.src, r.matches[k][1] + 1, End(r.matches[k]))) IN
  IF r.errs > 0 THEN "content-became-markup-or-markup-malformed"
  ELSE IF ~r.titles_ok THEN "message-or-suggestion-not-intact-in-its-attribute"
  ELSE IF badrow # {} THEN "line-cell-differs-from-source-line@row" \o ToString(Min(badrow))
  ELSE IF \E i, j \in real : i < j /\ r.rows[i].num >= r.rows[j].num THEN "line-numbers-not-increasing"
  ELSE IF r.neg /\ r.matches # <<>> /\ {r.rows[i].num : i \in real} # 1..Len(lines) THEN "negative-context-does-not-show-the-whole-file"
  ELSE IF \E k \in M : (IF inplace(k) THEN 1 ELSE 0) + over(k) # 1
       THEN "match-" \o ToString(Min({k \in M : (IF inplace(k) THEN 1 ELSE 0) + over(k) # 1})) \o "-not-highlighted-exactly-once"
  ELSE IF \E k \in M : inplace(k) /\ \E i \in 1..(Len(Pieces(r, k)) - 1) : Pieces(r, k)[i+1].row # Pieces(r, k)[i].row + 1
       THEN "highlight-pieces-not-in-consecutive-rows"
  ELSE IF \E k \in M : inplace(k) /\ ~SpanOk(Join(r, Pieces(r, k), 1), want(k))
       THEN "highlighted-text-of-match-" \o ToString(Min({k \in M : inplace(k) /\ ~SpanOk(Join(r, Pieces(r, k), 1), want(k))})) \o "-is-not-its-source-span"
  ELSE IF \E k \in M : inplace(k) /\ LET p == Pieces(r, k)[1]
                                        ln == lines[r.rows[p.row].num]
                                        col == r.matches[k][1] - (IF LastNLBefore(r.src, r.matches[k][1]) = 0 THEN 0 ELSE LastNLBefore(r.src, r.matches[k][1])) IN
                                    SubSeq(r.rows[p.row].text, 1, p.st) # Expand(SubSeq(ln, 1, col))
       THEN "highlight-not-at-the-place-of-the-match"
  ELSE IF \E j \in 1..Len(r.overlaps) : ~SpanOk(r.overlaps[j].text, want(r.overlaps[j].mid)) THEN "overlap-entry-is-not-the-source-span"
  ELSE "ok"
Drift(r) == IF {r.rows[i].num - 1 : i \in {i \in 1..Len(r.rows) : r.rows[i].num > 0}} # {r.model.displayed[i] : i \in 1..Len(r.model.displayed)}
            THEN "displayed-lines-differ-from-Html.tla"
            ELSE IF {r.overlaps[j].mid : j \in 1..Len(r.overlaps)} # {r.model.overlapped[i] : i \in 1..Len(r.model.overlapped)}
            THEN "overlap-list-differs-from-Html.tla" ELSE "none"
Next == cur <= Len(Recs) /\ cur' = cur + 1
        /\ LET r == Recs[cur] IN PrintT("@V" \o ToJson([id |-> r.id, bind |-> "ok", c16 |-> C16(r), drift |-> IF r.hasmodel THEN Drift(r) ELSE "none"]))
Spec == Init /\ [][Next]_cur
=============================================================================
