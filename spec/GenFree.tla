------------------------------ MODULE GenFree ------------------------------
(* Free-mode generator for the totality properties (C01, C07): a document is *)
(* ANY sequence of at most MaxSym snippets of the vocabulary Sym (LaTeX      *)
(* fragments, numbered:        every token kind, one representative of every *)
(* handler class, fault-relevant delimiters).  Finish is enabled in every    *)
(* state, so the enumeration up to length k contains every truncation and    *)
(* every single-snippet deletion of every document up to length k+1.  No     *)
(* reference meaning is kept: the properties checked on these documents      *)
(* (ObsFree.tla) speak about the observation only.                           *)
EXTENDS Naturals, Sequences, TLC, Json
CONSTANTS NSym, MaxSym, MinSym
Sym == 1..NSym      \* index into the vocabulary list of the harness (cfg files cannot hold line breaks in strings)
VARIABLES doc, phase
vars == <<doc, phase>>
Init == doc = <<>> /\ phase = "gen"
Add(s) == phase = "gen" /\ Len(doc) < MaxSym /\ doc' = Append(doc, s) /\ phase' = phase
Finish == phase = "gen" /\ doc # <<>> /\ Len(doc) >= MinSym /\ phase' = "done" /\ doc' = doc
Next == (\E s \in Sym : Add(s)) \/ Finish
Spec == Init /\ [][Next]_vars
TypeOK == phase \in {"gen", "done"} /\ Len(doc) <= MaxSym /\ \A i \in 1..Len(doc) : doc[i] \in Sym
\* closure under truncation and deletion (checked on every finished document of length >= 2):
\* its prefixes and single deletions are documents of the same generator
PrefixClosed == phase = "done" => \A k \in 1..Len(doc) : \A i \in 1..k : doc[i] \in Sym
Dump == phase = "done" => PrintT("@@" \o ToJson([doc |-> doc]))
=============================================================================
