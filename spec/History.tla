------------------------------ MODULE History ------------------------------
(* C17: results do not depend on what was processed before.                   *)
(* A process handles a sequence of calls (documents with options, or HTTP     *)
(* requests).  proc is the process-level state: the set of calls that have    *)
(* left something behind in locations that survive a call.  Couplings is the  *)
(* inventory of such locations as pairs <<writer, reader>> of catalogue calls *)
(* (module-level tables, mutable defaults, server attributes); in the         *)
(* intended design it is empty: all parser state lives in objects created per *)
(* call (tex2txt.py:39-56).  TLC enumerates every history up to MaxHist calls *)
(* over the catalogue, checks Independence on the model and emits the         *)
(* histories for replay in one real interpreter / one real server.            *)
EXTENDS Naturals, Sequences, FiniteSets, TLC, Json
CONSTANTS NCalls, MaxHist, Coupled      \* Coupled: TRUE = model of the tree before the fix (glossary table at module level)
Calls == 1..NCalls
\* catalogue numbers of the calls that load / use a glossary entry (harness: checks/history17.py)
GlsLoad == 3
GlsUse == 4
Couplings == IF Coupled THEN {<<GlsLoad, GlsUse>>} ELSE {}
VARIABLES hist, proc, seen
vars == <<hist, proc, seen>>
Init == hist = <<>> /\ proc = {} /\ seen = <<>>
Call(c) == /\ Len(hist) < MaxHist
           /\ hist' = Append(hist, c)
           /\ seen' = Append(seen, {w \in proc : <<w, c>> \in Couplings})     \* what this call can observe of earlier ones
           /\ proc' = proc \cup {c}
Next == \E c \in Calls : Call(c)
Spec == Init /\ [][Next]_vars
\* the result of a call is a function of the call alone
Independence == \A k \in 1..Len(seen) : seen[k] = {}
Dump == hist # <<>> => PrintT("@@" \o ToJson([hist |-> hist]))
=============================================================================
