------------------------------- MODULE Linear -------------------------------
(* LEVEL B: utils.get_txt_pos_ml - splitting the token list into text parts   *)
(* per language.  Tokens: [k |-> "ch", c] (one character of text) and         *)
(* [k |-> "lang", lang, back, hard, brk] (language tokens emitted by the      *)
(* babel handlers and in front of extracted flows).  One action per token of  *)
(* the sectioning loop, one per iteration of the joining loop.                *)
(* TLC explores ALL token lists up to MaxToks over the alphabet and checks    *)
(* that every character lands in exactly one part, labelled with the          *)
(* language in force by stack semantics (push / pop / replace), also for      *)
(* insertions nested in an insertion of the same language.                   *)
(* OldDesign = TRUE is the algorithm before the fix (a language token naming  *)
(* the language in force was ignored, its closing token still popped): TLC    *)
(* then produces the counterexample  push de, push de, back, ch.              *)
EXTENDS Naturals, Sequences, FiniteSets, TLC, Json
CONSTANTS MaxToks, Thresh, OldDesign
Main == "en"
Ch(c) == [k |-> "ch", c |-> c, lang |-> "", back |-> FALSE, hard |-> FALSE, brk |-> FALSE]
Lg(l, b, h, r) == [k |-> "lang", c |-> "", lang |-> l, back |-> b, hard |-> h, brk |-> r]
Alphabet == {Ch("a"), Ch(" "), Lg("de", FALSE, FALSE, FALSE), Lg("en", FALSE, FALSE, FALSE), Lg("", TRUE, FALSE, FALSE),
             Lg("de", FALSE, TRUE, TRUE), Lg("fr", FALSE, TRUE, TRUE)}
VARIABLES toks, phase, i, stack, cur, sback, sbrk, sections, out
vars == <<toks, phase, i, stack, cur, sback, sbrk, sections, out>>
Init == toks = <<>> /\ phase = "build" /\ i = 1 /\ stack = <<Main>> /\ cur = <<>> /\ sback = FALSE /\ sbrk = FALSE /\ sections = <<>> /\ out = <<>>
Add(t) == phase = "build" /\ Len(toks) < MaxToks /\ toks' = Append(toks, t) /\ UNCHANGED <<phase, i, stack, cur, sback, sbrk, sections, out>>
Start == phase = "build" /\ toks # <<>> /\ phase' = "sect" /\ UNCHANGED <<toks, i, stack, cur, sback, sbrk, sections, out>>
Top == stack[Len(stack)]
Sec(l, b, r, idx) == [lang |-> l, back |-> b, brk |-> r, idx |-> idx]       \* idx: indices of the characters (into toks)
Flush(secs) == IF cur = <<>> THEN secs ELSE Append(secs, Sec(Top, sback, sbrk, cur))
\* utils.py:164-184, one token
Sect == /\ phase = "sect" /\ i <= Len(toks)
        /\ LET t == toks[i] IN
           IF t.k = "ch" THEN cur' = Append(cur, i) /\ UNCHANGED <<stack, sback, sbrk, sections>>
           ELSE IF t.lang = Top THEN
                \* a token naming the language in force: no new section; an insertion is pushed so that its closing token balances
                /\ stack' = IF ~OldDesign /\ ~t.back /\ ~t.hard THEN Append(stack, t.lang) ELSE stack
                /\ UNCHANGED <<cur, sback, sbrk, sections>>
           ELSE IF ~OldDesign /\ t.back /\ Len(stack) > 1 /\ stack[Len(stack) - 1] = Top THEN
                stack' = SubSeq(stack, 1, Len(stack) - 1) /\ UNCHANGED <<cur, sback, sbrk, sections>>
           ELSE /\ sections' = Flush(sections) /\ cur' = <<>> /\ sback' = t.back /\ sbrk' = t.brk
                /\ stack' = IF t.back THEN (IF Len(stack) > 1 THEN SubSeq(stack, 1, Len(stack) - 1) ELSE stack)
                            ELSE IF t.hard THEN [stack EXCEPT ![Len(stack)] = t.lang] ELSE Append(stack, t.lang)
        /\ i' = i + 1 /\ UNCHANGED <<toks, phase, out>>
SectDone == phase = "sect" /\ i > Len(toks) /\ sections' = Flush(sections) /\ cur' = <<>> /\ phase' = "join"
            /\ UNCHANGED <<toks, i, stack, sback, sbrk, out>>
\* utils.py:193-220: a short insertion is replaced by a placeholder, the text around it is glued
Words(sec) == Cardinality({j \in 1..Len(sec.idx) : toks[sec.idx[j]].c # " " /\ (j = 1 \/ toks[sec.idx[j-1]].c = " ")})
Join == /\ phase = "join" /\ sections # <<>>
        /\ IF Len(sections) > 1 /\ ~sections[2].brk /\ ~sections[2].back
              /\ (Len(sections) < 3 \/ sections[1].lang = sections[3].lang) /\ Words(sections[2]) <= Thresh
           THEN \* the inclusion leaves; its neighbours are merged (a placeholder stands for it)
                /\ out' = Append(out, sections[2])
                /\ sections' = IF Len(sections) > 2
                               THEN <<[sections[1] EXCEPT !.idx = @ \o sections[3].idx]>> \o SubSeq(sections, 4, Len(sections))
                               ELSE <<sections[1]>>
           ELSE out' = Append(out, sections[1]) /\ sections' = Tail(sections)
        /\ UNCHANGED <<toks, phase, i, stack, cur, sback, sbrk>>
JoinDone == phase = "join" /\ sections = <<>> /\ phase' = "done" /\ UNCHANGED <<toks, i, stack, cur, sback, sbrk, sections, out>>
Next == (\E t \in Alphabet : Add(t)) \/ Start \/ Sect \/ SectDone \/ Join \/ JoinDone
Spec == Init /\ [][Next]_vars /\ WF_vars(Sect \/ SectDone \/ Join \/ JoinDone)

\* ---- reference: the language in force at token j by stack semantics -----------------
RECURSIVE RefStack(_)
RefStack(j) == IF j = 0 THEN <<Main>>
               ELSE LET s == RefStack(j - 1) t == toks[j] IN
                    IF t.k = "ch" THEN s
                    ELSE IF t.back THEN (IF Len(s) > 1 THEN SubSeq(s, 1, Len(s) - 1) ELSE s)
                    ELSE IF t.hard THEN [s EXCEPT ![Len(s)] = t.lang] ELSE Append(s, t.lang)
RefLang(j) == LET s == RefStack(j) IN s[Len(s)]
Chars == {j \in 1..Len(toks) : toks[j].k = "ch"}
\* ---- C12 at the level of tokens ------------------------------------------------------
EachOnce == phase = "done" => \A j \in Chars : Cardinality({p \in 1..Len(out) : \E x \in 1..Len(out[p].idx) : out[p].idx[x] = j}) = 1
RightLabel == phase = "done" => \A p \in 1..Len(out) : \A x \in 1..Len(out[p].idx) : out[p].lang = RefLang(out[p].idx[x])
InOrder == phase = "done" => \A p \in 1..Len(out) : \A x \in 1..(Len(out[p].idx) - 1) : out[p].idx[x] < out[p].idx[x+1]
Terminates == (phase = "sect") ~> (phase = "done")
Dump == phase = "done" => PrintT("@@" \o ToJson([toks |-> toks, parts |-> [p \in 1..Len(out) |-> [lang |-> out[p].lang, idx |-> out[p].idx]]]))
=============================================================================
