-------------------------------- MODULE Lines --------------------------------
(* The line-removal pass (parser.remove_pure_action_lines), declaratively.    *)
(* README: "lines that become blank only because markup vanished are          *)
(* removed": every expansion leaves an action token; a line that holds only   *)
(* white space and at least one action token is deleted together with its     *)
(* line break; every other character stays, with its own position; language   *)
(* tokens always survive.                                                     *)
(* A token is [k, p, t, f]: class name, 0-based position, text (characters),  *)
(* fixed position.  Flat turns a token list into entries [c, p]: one per      *)
(* character, "ACT" for an action token, "LNG" for a language token.          *)
EXTENDS Chars, Naturals, Sequences, FiniteSets, TLC

Entry(c, p) == [c |-> c, p |-> p, fx |-> FALSE]
TokFlat(t) == IF t.k = "ActionToken" THEN <<Entry("ACT", t.p)>>
              ELSE IF t.k = "LanguageToken" THEN <<Entry("LNG", t.p)>>
              ELSE [i \in 1..Len(t.t) |-> [c |-> t.t[i], p |-> IF t.f THEN t.p ELSE t.p + i - 1, fx |-> t.f]]
RECURSIVE Flat(_)
Flat(ts) == IF ts = <<>> THEN <<>> ELSE TokFlat(Head(ts)) \o Flat(Tail(ts))
\* lines: each ends with its line-break entry, except possibly the last
RECURSIVE SplitL(_, _, _)
SplitL(f, i, cur) == IF i > Len(f) THEN (IF cur = <<>> THEN <<>> ELSE <<cur>>)
                     ELSE IF f[i].c = NL THEN <<Append(cur, f[i])>> \o SplitL(f, i+1, <<>>) ELSE SplitL(f, i+1, Append(cur, f[i]))
Removable(line) == (\E i \in 1..Len(line) : line[i].c = "ACT")
                   /\ \A i \in 1..Len(line) : line[i].c \in {"ACT", "LNG"} \/ IsSpace(line[i].c)
Keep(line) == IF Removable(line) THEN SelectSeq(line, LAMBDA e : e.c = "LNG") ELSE SelectSeq(line, LAMBDA e : e.c # "ACT")
RECURSIVE Cat(_, _)
Cat(ls, i) == IF i > Len(ls) THEN <<>> ELSE Keep(ls[i]) \o Cat(ls, i+1)
\* what remove_pure_action_lines has to return, as entries
RefOut(ts) == Cat(SplitL(Flat(ts), 1, <<>>), 1)
Chars(f) == [i \in 1..Len(f) |-> f[i].c]
\* verdict for one recorded call
Judge(inp, out) ==
  LET want == RefOut(inp)
      got == SelectSeq(Flat(out), LAMBDA e : e.c # "ACT") IN
  IF Chars(got) # Chars(want) THEN "text"            \* a line wrongly removed or kept
  \* same text: a surviving character must keep its position (also a character of a token with one fixed position)
  ELSE IF \E i \in 1..Len(got) : ~want[i].fx /\ got[i].p # want[i].p THEN "positions"
  ELSE IF \E i \in 1..Len(got) : got[i].p # want[i].p THEN "fixed-positions"
  ELSE "ok"
=============================================================================
