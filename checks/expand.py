"""The expander's main loop (Level B): Expand.tla models Parser.expand_sequence with expand_macro, expand_arguments, arg_buffer,
generate_replacements, begin_environment and end_environment as a state machine on a token buffer (everything the code pushes
back is pushed back and scanned again; a removed environment is a nested loop whose output is dropped).  TLC checks for ALL
inputs within the bound: copied tokens keep their positions, generated tokens lie in the span of a construct of the input,
no control sequence survives, the letters equal call-by-value TeX substitution on well-formed input, the unknowns list is
exact, only an argument-doubling macro can make the expansion run away, termination.  The inputs are replayed into the real
expander; ExpandTrace.tla compares token for token (DRIFT) and evaluates the same properties on the real result."""
from harness import core, tlc

FULL = ["a", "b", "sp", "par", "{", "}", "[", "]", "cm", "m0", "m1", "m2", "mo", "mn", "md", "un", "bgR", "bgP", "bgU", "enR", "enP", "enU"]
MACNAME = {'m0': '\\mzero', 'm1': '\\mone', 'm2': '\\mtwo', 'mo': '\\mopt', 'mn': '\\mnest', 'md': '\\mdup', 'un': '\\munk'}
LETTERS = set('abxydRPU[]')


def drive(case):
    import contextlib, io
    from yalafi import tex2txt  # noqa
    from yalafi import defs, parameters, parser, scanner
    parms = parameters.Parameters('')
    p = parser.Parser(parms)
    p.latex = 'x' * 400
    p.extracted = []
    p.unknowns = []
    p.remove_pure_action_lines = lambda toks: toks        # has its own model (Lines.tla)
    M = defs.Macro
    p.the_macros['\\mzero'] = M(parms, '\\mzero', args='', repl='x')
    p.the_macros['\\mone'] = M(parms, '\\mone', args='A', repl='x#1y')
    p.the_macros['\\mtwo'] = M(parms, '\\mtwo', args='AA', repl='#2#1')
    p.the_macros['\\mopt'] = M(parms, '\\mopt', args='OA', repl='#1x#2', defaults=['d'])
    p.the_macros['\\mnest'] = M(parms, '\\mnest', args='A', repl='\\mone{#1}')
    p.the_macros['\\mdup'] = M(parms, '\\mdup', args='A', repl='#1#1')
    p.the_macros.pop('\\munk', None)
    p.the_environments['R'] = defs.Environ(parms, 'R', remove=True)
    p.the_environments['P'] = defs.Environ(parms, 'P')
    p.the_environments.pop('U', None)
    mark = ' ' + parms.mark_latex_error + ' '

    def mk(t):
        k, q = t['k'], t['p']
        if k in ('{', '}'):
            return defs.SpecialToken(q, k)
        if k in LETTERS:
            return defs.TextToken(q, k)
        if k == 'sp':
            return defs.SpaceToken(q, ' ')
        if k == 'par':
            return defs.ParagraphToken(q, '\n\n')
        if k == 'cm':
            return defs.CommentToken(q, '%c')
        if k == 'bg':
            return defs.BeginToken(q, '\\begin')
        if k == 'en':
            return defs.EndToken(q, '\\end')
        return defs.MacroToken(q, MACNAME[k])

    def back(t):
        n = type(t).__name__
        f = bool(t.pos_fix)
        if n == 'VoidToken':
            k = 'void'
        elif n == 'ActionToken':
            k = 'act'
        elif n == 'TextToken' and t.txt == mark:
            k = 'mark'
        elif n == 'TextToken' and t.txt in LETTERS:
            k = t.txt
        elif n == 'SpaceToken' and t.txt == ' ':
            k = 'sp'
        elif n == 'ParagraphToken':
            k = 'par'
        elif n == 'SpecialToken' and t.txt in '{}':
            k = t.txt
        else:
            k = n + ':' + t.txt
        return {'k': k, 'p': t.pos, 'f': f}
    rec = {'id': case['id'], 'toks': case['toks'], 'oom': case.get('oom', 'no')}
    from harness import drivers
    try:
        # (an input that the machine leaves early - a name it does not handle - may make the real expander run for ever)
        drivers._arm()
        with contextlib.redirect_stderr(io.StringIO()):
            out = p.expand_sequence(scanner.Buffer([mk(t) for t in case['toks']]))
        drivers._disarm()
        rec['out'] = [back(t) for t in out]
        inv = {v: k for k, v in MACNAME.items()}
        rec['unk'] = [inv.get(u, u) for u in p.unknowns]
        rec['outcome'] = 'returned'
    except drivers._Alarm:
        rec.update(out=[], unk=[], outcome='hang')
    except BaseException as e:  # noqa
        rec.update(out=[], unk=[], outcome='exception:' + type(e).__name__)
    finally:
        drivers._disarm()
    return rec


def phase(c, tier):
    q = tier == 'quick'
    inv = ['PosKept', 'FixInSpan', 'PosInInput', 'NoCallLeft', 'Subst', 'Unknowns', 'DivergeOnlyByDoubling']
    n = 3 if q else 4
    consts = {'MaxSym': n, 'MaxExp': 24, 'Alpha': set(FULL)}
    c.tlc('Expand.tla: all inputs of <= %d symbols over %d symbols (positions kept, generated tokens in the span of their construct, '
          'TeX substitution, unknowns exact, divergence only by doubling)' % (n, len(FULL)), 'Expand', tlc.cfg_text(constants=consts, invariants=inv), timeout=3000)
    c.tlc('Expand.tla: termination of the loop (all inputs of <= 3 symbols)', 'Expand',
          tlc.cfg_text(constants=dict(consts, MaxSym=3), properties=['Terminates']), timeout=3000, extra=('-lncheck', 'final'))
    r = c.tlc('Expand.tla: inputs for replay', 'Expand', tlc.cfg_text(constants=dict(consts, MaxSym=3), invariants=['Dump']), timeout=3000)
    scen = [s for s in r.json('@@') if s['oom'] != 'diverge']
    if not q:
        # longer inputs by simulation
        r = c.tlc('Expand.tla: random inputs of <= 7 symbols for replay', 'Expand', tlc.cfg_text(constants=dict(consts, MaxSym=7), invariants=inv + ['Dump']),
                  simulate=60000, depth=60, seed=c.seed, timeout=3000)
        scen += [s for s in r.json('@@') if s['oom'] != 'diverge']
    seen = set()
    cases = []
    for s in scen:
        key = tuple((t['k'], t['p']) for t in s['toks'])
        if key not in seen:
            seen.add(key)
            cases.append(dict(id='ex%d' % len(cases), toks=s['toks'], oom=s['oom']))
    c.rng.shuffle(cases)
    cases = cases[:9000 if q else 120000]
    recs = c.drive(cases, drive)
    ok = [x for x in recs if x['outcome'] == 'returned']
    for x in recs:
        if x['outcome'] != 'returned' and x['oom'] == 'no':
            c.drift.append({'tokens': [t['k'] for t in x['toks']], 'what': 'expander: ' + x['outcome']})
    c.extra['expander_inputs_not_returned_outside_model'] = len([x for x in recs if x['outcome'] != 'returned' and x['oom'] != 'no'])
    verdicts = c.validate('ExpandTrace: the real expander along TLC inputs', 'ExpandTrace', ok, spec='TSpec',
                          constants={'MaxSym': 0, 'MaxExp': 24, 'Alpha': set()}, project=lambda x: {k: x[k] for k in ('id', 'toks', 'out', 'unk')})
    nout = 0
    for x in ok:
        v = verdicts[x['id']]
        if v['model'] != 'no':
            nout += 1
        elif v['mech'] != 'ok' or v['drift'] != 'none':
            c.drift.append({'tokens': [t['k'] for t in x['toks']], 'what': 'expander: ' + (v['mech'] if v['mech'] != 'ok' else v['drift'])})
    c.extra['expander_inputs_replayed'] = len(ok)
    c.extra['expander_inputs_outside_model'] = nout
    return recs, verdicts
