"""C14: a proofreader match is reported at the flagged word in the LaTeX file.
 (1) Aggregate.tla: TLC model-checks the aggregation design (offset shift over concatenated parts, delimiter padding, stable
     sort, map_match_position) for all small scenarios, and the scenarios are replayed into the real
     proofreader.run_proofreader_options / utils.map_match_position (AggTrace.tla judges the real result).
 (2) end to end: Gen.tla documents with flagged words (runs of the letter b), `python -m yalafi.shell` behind a fake
     proofreader in all output modes (+ server emulation, + multi-language), ShellObs.tla judges every report."""
import json
import os
import socket
import subprocess
import sys
import time
import urllib.parse
import urllib.request

from harness import chars, core, drivers, findings, shelldrv, tlc

S1 = ['a', 'b', 'U+00E4', 'sp', 'nl', 'fn', 'cb', 'add', 'uk']
S2 = ['a', 'b', 'sp', 'nl', 'lb', 'flD', 'selD', 'cb', 'im', 'sec', 'cm', 'ob', 'U+00E4', 'fn']
MODES = ['plain', 'json', 'xml', 'xml-b', 'html']
PACK = 'xcolor,listings,amsmath,babel'
ML_DISABLE = 'MLRULE'
RULETHR = 2


# ------------------------------------------------------------------ aggregation replay
def drive_agg(case):
    """replay one TLC scenario of Aggregate.tla into the real aggregation code"""
    import contextlib, io
    import yalafi.shell.proofreader as pr
    from yalafi.shell import utils as sutils
    from yalafi import tex2txt

    class Cmd:
        replace = None; define = ''; extract = None; list_unknown = False; simple_equations = False
        documentclass = ''; packages = ''; no_specials = False; plain_input = False; multi_language = True
        ml_continue_threshold = 2; ml_rule_threshold = 2; ml_disable = ''; ml_disablecategories = ''
        textgears = None; single_letters = None; equation_punctuation = None; server = ''

    def json_fatal(item):
        raise SystemExit('json_fatal ' + item)

    def json_get(dic, item, typ):
        if not isinstance(dic, dict):
            json_fatal(item)
        ret = dic.get(item)
        if not isinstance(ret, typ):
            json_fatal(item)
        return ret
    v = tex2txt.Aux()
    v.cmdline = Cmd(); v.ltcommand = ''; v.ltserver = ''; v.ltserver_local = ''; v.ltserver_local_cmd = ''; v.textgears_server = ''
    v.json_decoder = json.JSONDecoder(); v.json_get = json_get; v.json_fatal = json_fatal
    v.equation_replacements_display = 'U-U-U'; v.equation_replacements_inline = 'B-B-B'; v.equation_replacements = 'U-U-U|B-B-B'
    v.lt_option_map = {}
    pr.init(v)
    parts = case['parts']
    n = case['n']
    plain_map = {'l%d' % (k + 1): [('x' * len(p['map']), list(p['map']))] for k, p in enumerate(parts)}
    answers = {'l%d' % (k + 1): [{'offset': m[0], 'length': m[1], 'message': '%d:%d:%d' % (k + 1, m[0], m[1])} for m in p['ms']]
               for k, p in enumerate(parts)}
    old_t, old_lt = pr.tex2txt.tex2txt, pr.run_languagetool
    rec = dict(case)
    try:
        pr.tex2txt.tex2txt = lambda *a, **kw: plain_map
        pr.run_languagetool = lambda plain, lang, *a: [dict(m) for m in answers[lang]]
        with contextlib.redirect_stderr(io.StringIO()):
            tex, plain_tot, cm_tot, ms = pr.run_proofreader_options('y' * n, 'l1', '', '', '', '', [])
            rep = []
            for m in ms:
                q, o, ln = [int(x) for x in m['message'].split(':')]
                m = sutils.map_match_position(m, tex, cm_tot)
                rep.append({'offset': m['offset'], 'length': m['length'], 'part': q, 'local': o, 'plen': ln})
        rec.update(reported=rep, cm=list(cm_tot), plen=len(plain_tot), outcome='returned')
    except BaseException as e:  # noqa
        rec.update(reported=[], cm=[], plen=0, outcome='exception:' + type(e).__name__)
    finally:
        pr.tex2txt.tex2txt, pr.run_languagetool = old_t, old_lt
    return rec


def aggregation(c, tier):
    q = tier == 'quick'
    inv = ['LockStep', 'ShiftRight', 'ReportedAtWord', 'Ordered', 'AllReported', 'InFile']
    big = dict(N=4, MaxParts=2, MaxLen=2, MaxMatches=2) if q else dict(N=5, MaxParts=3, MaxLen=2, MaxMatches=2)
    cfg = tlc.cfg_text(constants=dict(big, Emit=False), invariants=inv)
    c.tlc('Aggregate.tla: design check, all scenarios N=%(N)d parts<=%(MaxParts)d len<=%(MaxLen)d' % big, 'Aggregate', cfg)
    small = dict(N=3, MaxParts=2, MaxLen=2, MaxMatches=1) if q else dict(N=4, MaxParts=2, MaxLen=2, MaxMatches=2)
    cfg = tlc.cfg_text(constants=dict(small, Emit=True), invariants=inv + ['Dump'])
    r = c.tlc('Aggregate.tla: scenarios for replay', 'Aggregate', cfg)
    cases = []
    for b in r.json('@@'):
        cases.append({'id': 'agg%d' % len(cases), 'n': small['N'], 'parts': b['parts'],
                      'model': {'reported': b['reported'], 'cm': b['cm'], 'plen': b['plen']}})
    recs = c.drive(cases, drive_agg)
    for r_ in recs:
        if r_['outcome'] != 'returned':
            c.violation(r_, 'aggregation:no-result:' + r_['outcome'])
    ok = [x for x in recs if x['outcome'] == 'returned']
    verdicts = c.validate('AggTrace: real aggregation along TLC scenarios', 'AggTrace', ok,
                          project=lambda x: {k: x[k] for k in ('id', 'n', 'parts', 'reported', 'cm', 'plen', 'model')})
    for x in ok:
        v = verdicts[x['id']]
        c.nontrivial.add('agg' + json.dumps(x['parts']))
        if v['c14'] != 'ok':
            c.violation(x, 'aggregation:' + v['c14'])
        elif v['drift'] != 'none':
            c.drift.append({'scenario': x['parts'], 'what': v['drift']})
    c.extra['aggregation_scenarios_replayed'] = len(ok)


# ------------------------------------------------------------------ end to end
def own_parts(text, ml, lang):
    opts = {'pack': PACK, 'lang': lang}
    if ml:
        r = drivers.call_tex2txt(text, opts, True, 2)
        return [{'lang': p['lang'], 'text': p['plain']} for p in r.get('parts', []) if chars.dec(p['plain']).strip()]
    r = drivers.call_tex2txt(text, opts, False)
    return [{'lang': lang, 'text': r.get('plain', [])}] if chars.dec(r.get('plain', [])).strip() else []


def norm_entry(**kw):
    e = {'o': -1, 'n': -1, 'line': -1, 'col': -1, 'fromy': -1, 'fromx': -1, 'toy': -1, 'tox': -1, 'word': [], 'ctxword': []}
    e.update(kw)
    return e


def ctxword(ctx):
    t, o, n = ctx.get('text', ''), ctx.get('offset', 0), ctx.get('length', 0)
    return chars.enc(t[o:o + n])


def parse_report(mode, out):
    if mode == 'plain':
        es = []
        for m in shelldrv.parse_plain(out):
            beg = len(m['marks']) - len(m['marks'].lstrip(' '))
            n = m['marks'].count('^')
            es.append(norm_entry(line=m['line'], col=m['col'], ctxword=chars.enc(m['ctx'][beg:beg + n])))
        return es
    if mode in ('json', 'server'):
        es = []
        for m in shelldrv.parse_json(out):
            p = m.get('priv') or {}
            es.append(norm_entry(o=m['offset'], n=m['length'], fromy=p.get('fromy', -1), fromx=p.get('fromx', -1),
                                 toy=p.get('toy', -1), tox=p.get('tox', -1), ctxword=ctxword(m['context'])))
        return es
    if mode in ('xml', 'xml-b'):
        es = []
        for m in shelldrv.parse_xml(out):
            ct = m['context']
            co, cl = int(m['contextoffset']), int(m['errorlength'])
            if mode == 'xml-b':
                w = ct.encode()[co:co + cl].decode('utf-8', 'replace')
            else:
                w = ct[co:co + cl]
            es.append(norm_entry(fromy=int(m['fromy']), fromx=int(m['fromx']), toy=int(m['toy']), tox=int(m['tox']), ctxword=chars.enc(w)))
        return es
    if mode == 'html':
        h = shelldrv.parse_html(out)
        es = []
        for tab in h.tables[:1]:
            last = None
            for row in tab:
                num = row['num'].replace('\xa0', '').strip()
                for (st, en, title) in row['hl']:
                    txt = row['text'].replace('\u2002', ' ')
                    m = __import__('re').search(r'>>>(.*?)<<<', title.replace('\u2002', ' '))
                    if last is not None and last[0] == title and st == 0 and num and last[1] + 1 == int(num):
                        # a match that spans a line break is highlighted line by line: one message
                        es[-1]['word'] += ['NL'] + chars.enc(txt[st:en])
                        last = (title, int(num))
                        continue
                    es.append(norm_entry(line=int(num) if num else -1, col=st + 1, word=chars.enc(txt[st:en]),
                                         ctxword=chars.enc(m.group(1)) if m else []))
                    last = (title, int(num) if num else -9)
        for tab in h.tables[1:]:
            # messages that overlap an earlier one are listed separately, with their line number only
            for row in tab:
                titles = [t for (_, _, t) in row['hl']]
                m = __import__('re').search(r'>>>(.*?)<<<', titles[0].replace('\u2002', ' ')) if titles else None
                es.append(norm_entry(line=-1, col=-1, word=chars.enc(row['text'].replace('\u2002', ' ')), ctxword=chars.enc(m.group(1)) if m else []))
        return es
    raise ValueError(mode)


def drive_e2e(case):
    text = chars.dec(case['src'])
    tex = text if text.endswith('\n') else text + '\n'
    mode, ml, lang = case['mode'], case['ml'], case['mainlang']
    args = ['--output', mode, '--packages', PACK, '--language', lang, '--ml-disable', ML_DISABLE, '--ml-rule-threshold', str(RULETHR)]
    if ml:
        args.append('--multi-language')
    if case.get('single'):
        args += ['--single-letters', case['single']]
    r = shelldrv.run_shell({'t.tex': text}, args + ['t.tex'], flag=case.get('ltflag', 'b'))
    rec = dict(case)
    rec['exit'] = r['exit']
    rec['stderr'] = r['stderr'][-300:]
    rec['blen'] = [len(ch.encode('utf-8')) for ch in text]
    rec['rulethr'] = RULETHR
    rec['parts'] = own_parts(tex, ml, lang)
    rec['log'] = []
    for l in r['log']:
        a = l['argv']
        dis = a[a.index('--disable') + 1] if '--disable' in a else ''
        rec['log'].append({'lang': a[a.index('--language') + 1] if '--language' in a else '?', 'text': chars.enc(l['stdin']),
                           'mlrule': ML_DISABLE in dis.split(',')})
    try:
        rec['report'] = parse_report(mode, r['stdout']) if r['exit'] == 0 else []
        rec['outcome'] = 'returned' if r['exit'] == 0 else 'exit:%d' % r['exit']
    except Exception as e:  # noqa
        rec['report'] = []
        rec['outcome'] = 'unparsable-report:' + type(e).__name__
    rec['stdout'] = r['stdout'][:1500]
    return rec


def free_port():
    s = socket.socket()
    s.bind(('localhost', 0))
    p = s.getsockname()[1]
    s.close()
    return p


def server_cases(c, cases):
    """the same documents through one --as-server process (sequential requests)"""
    import tempfile, shutil
    d = tempfile.mkdtemp(prefix='yv_srv_')
    port = free_port()
    log = os.path.join(d, 'lt.log')
    env = dict(os.environ, PYTHONPATH=drivers.REPO, YV_LT_LOG=log, YV_LT_FLAG='b')
    cmd = [sys.executable, '-m', 'yalafi.shell', '--no-config', '--as-server', str(port), '--lt-command', sys.executable + ' ' + shelldrv.FAKE,
           '--packages', PACK, '--multi-language', '--ml-disable', ML_DISABLE, '--ml-rule-threshold', str(RULETHR)]
    p = subprocess.Popen(cmd, cwd=d, env=env, stdout=subprocess.DEVNULL, stderr=subprocess.DEVNULL)
    recs = []
    try:
        for _ in range(50):
            try:
                socket.create_connection(('localhost', port), timeout=0.2).close()
                break
            except OSError:
                time.sleep(0.1)
        for cs in cases:
            text = chars.dec(cs['src'])
            open(log, 'w').close()
            data = urllib.parse.urlencode({'language': cs['mainlang'], 'text': text}).encode('ascii')
            rec = dict(cs, mode='server', ml=True)
            try:
                out = urllib.request.urlopen(urllib.request.Request('http://localhost:%d/v2/check' % port, data=data), timeout=20).read().decode()
                rec['report'] = parse_report('server', out)
                rec['outcome'] = 'returned'
            except Exception as e:  # noqa
                rec['report'] = []
                rec['outcome'] = 'request-failed:' + type(e).__name__
            rec['blen'] = [len(ch.encode('utf-8')) for ch in text]
            rec['rulethr'] = RULETHR
            rec['parts'] = own_parts(text, True, cs['mainlang'])
            rec['log'] = []
            for l in open(log):
                l = json.loads(l)
                a = l['argv']
                dis = a[a.index('--disable') + 1] if '--disable' in a else ''
                rec['log'].append({'lang': a[a.index('--language') + 1], 'text': chars.enc(l['stdin']), 'mlrule': ML_DISABLE in dis.split(',')})
            recs.append(rec)
    finally:
        p.kill()
        p.wait()
        shutil.rmtree(d, ignore_errors=True)
    c.evaluations += len(recs)
    return recs


def project(r):
    d = {k: r[k] for k in ('id', 'doc', 'src', 'blen', 'mode', 'ml', 'rulethr', 'parts', 'log', 'report')}
    d['flag'] = r.get('flag', 'b')
    return d


def run(prop, tier, seed, replay=None):
    c = core.Check(prop, tier, seed)
    q = tier == 'quick'
    c.rule = ('(1) all aggregation scenarios of Aggregate.tla within the bounds (TLC) + their replay into the real aggregation code; '
              '(2) documents over {a, b (flagged), a-umlaut, blank, line break, footnote, argument, unknown macro, label, \\\\foreignlanguage, '
              '\\\\selectlanguage, inline maths, heading, comment, group} (TLC, exhaustive at the bound) x output modes plain/json/xml/xml-b/html/server '
              'x single/multi-language; non-trivial = distinct (source, mode, ml) with at least one flagged word')
    if replay:
        cs = json.load(open(replay))['case']
        if str(cs.get('id', '')).startswith('agg'):
            recs = [drive_agg(cs)]
            print(recs)
            return 0
        cases = [dict(id=0, doc=cs['doc'], src=cs['src'], mode=cs['mode'], ml=cs['ml'], mainlang=cs['mainlang'])]
        srv = []
    else:
        aggregation(c, tier)
        seen = {}
        for syms, n, d in ((S1, 4 if q else 5, 2), (S2, 3 if q else 4, 2)):
            cfg = tlc.cfg_text(constants={'Sym': set(syms), 'MaxSym': n, 'MaxDepth': d, 'Free': False, 'Mode': 'normal'}, invariants=['SrcIsConc', 'Dump'])
            r = c.tlc('generator E(%d) over %d symbols' % (n, len(syms)), 'Gen', cfg)
            for b in r.json('@@'):
                if 'b' in b['doc']:
                    seen.setdefault(tuple(b['doc']), b)
        docs = list(seen.values())
        c.rng.shuffle(docs)
        docs = docs[:900 if q else 12000]
        cases = []
        for i, b in enumerate(docs):
            ml = bool({'flD', 'selD'} & set(b['doc'])) or i % 3 == 0
            modes = MODES if (i % 10 == 0 or not q) else [MODES[i % 5]]
            for m in modes:
                cases.append(dict(id=len(cases), doc=b['doc'], src=b['src'], mode=m, ml=ml, mainlang='en-GB'))
        srv = [dict(id='srv%d' % i, doc=b['doc'], src=b['src'], mainlang='en-GB') for i, b in enumerate(docs[:120 if q else 1500])]
    recs = c.drive(cases, drive_e2e, chunksize=4)
    if srv:
        recs += server_cases(c, srv)
    for r in recs:
        if r['outcome'] != 'returned':
            c.violation(r, 'no-report:' + r['outcome'])
    ok = [r for r in recs if r['outcome'] == 'returned']
    verdicts = c.validate('ShellObs: C14 predicate on real reports', 'ShellObs', ok, project=project)
    kf = findings.load(prop)
    for r in ok:
        v = verdicts[r['id']]['c14']
        c.nontrivial.add((''.join(r['src']), r['mode'], r['ml']))
        if v != 'ok':
            hit = findings.match(kf, r, v)
            if hit:
                c.known_seen.append(hit)
            else:
                c.violation(r, v, extra={'text': chars.dec(r['src'])})
    c.known_seen = sorted(set(c.known_seen))
    c.nontrivial = set(hash(x) for x in c.nontrivial)
    for r in ok[:2] + ok[-2:]:
        c.sample({'source': chars.dec(r['src']), 'mode': r['mode'], 'ml': r['ml'], 'report': r['report'][:3],
                  'submitted': [(l['lang'], chars.dec(l['text'])) for l in r['log']], 'verdict': verdicts[r['id']]['c14']})
    c.exhaustive = False
    c.assumptions = ['the fake proofreader flags every run of the letter b; a real proofreader may flag anything, the shell only sees offsets and lengths',
                     'HTTP transport, JSON and XML libraries trusted']
    return c.finish()
