"""C20: the shell's own checks mark the offending characters and honour accepted patterns.
GenChk.tla (TLC) enumerates plain texts; yalafi.shell.checks is called on each with every accept list / mode
of the catalogue; ObsChk.tla compares the messages with the declarative definitions of Checks.tla."""
import json
import random

from harness import chars, core, drivers, findings, tlc

PH_I = 'B-B-B'
PH_D = 'U-U-U'
ACCEPTS = [None, '', 'a', 'a.', 'a.|B', 'z.~B.', 'é|b', 'a.||']
MODES = [None, 'displayed', 'inline', 'all', 'disp', 'i']


def expand_accept(a):
    # what shell.py does for a trailing '||': the placeholders are accepted, too
    if a and a.endswith('||'):
        return a + '|'.join([PH_D, PH_I])
    return a


def repls_for(mode):
    if mode is None:
        return None
    full = [m for m in ('displayed', 'inline', 'all') if m.startswith(mode)][0]
    return {'displayed': [PH_D], 'inline': [PH_I], 'all': [PH_D, PH_I]}[full]


def drive(case):
    import contextlib, io

    class Cmd:
        pass
    from yalafi.shell import checks
    cmd = Cmd()
    cmd.single_letters = expand_accept(case['accept'])
    cmd.equation_punctuation = case['mode']
    txt = chars.dec(case['txt'])
    rec = {'id': case['id'], 'txt': case['txt'], 'accept_raw': case['accept'], 'mode': case['mode'],
           'hasaccept': cmd.single_letters is not None, 'hasrepls': case['mode'] is not None,
           'accept': [] if cmd.single_letters is None else chars.enc(cmd.single_letters),
           'repls': [] if case['mode'] is None else [chars.enc(x) for x in repls_for(case['mode'])]}

    def conv(ms):
        return [{'offset': m['offset'], 'length': m['length'], 'ctext': chars.enc(m['context']['text']),
                 'coffset': m['context']['offset'], 'clength': m['context']['length']} for m in ms]
    try:
        with contextlib.redirect_stderr(io.StringIO()):
            s = checks.create_single_letter_matches(txt, cmd)
            e = checks.create_equation_punct_messages(txt, cmd, PH_D, PH_I, PH_D + '|' + PH_I)
        rec['single'] = conv(s)
        rec['equ'] = conv(e)
        rec['outcome'] = 'returned'
    except BaseException as ex:  # noqa
        rec['single'] = []
        rec['equ'] = []
        rec['outcome'] = 'exception:' + type(ex).__name__
    return rec


def placeholders(ml):
    """the placeholder lists of the real parameters (data, language en)"""
    from yalafi import tex2txt  # noqa
    from yalafi import parameters
    lc = parameters.Parameters('en').lang_context
    ph = list(lc.math_repl_display) + list(lc.math_repl_display_vowel or []) + list(lc.math_repl_inline) + list(lc.math_repl_inline_vowel or [])
    if ml:
        ph += list(lc.lang_change_repl) + list(lc.lang_change_repl_vowel or [])
    return ph


def drive_plain(case):
    """the option handling of the shell itself (trailing ||, --multi-language): plain input, JSON report"""
    from harness import shelldrv
    txt = chars.dec(case['txt'])
    args = ['--plain-input', '--output', 'json', '--language', 'en-GB', '--single-letters', case['accept']] + (['--multi-language'] if case['ml'] else []) + ['t.tex']
    r = shelldrv.run_shell({'t.tex': txt}, args, flag='\x01')
    acc = case['accept']
    if acc.endswith('||'):
        acc = acc + '|'.join(placeholders(case['ml']))
    rec = {'id': case['id'], 'txt': case['txt'], 'accept_raw': case['accept'], 'mode': None, 'ml': case['ml'], 'hasaccept': True, 'hasrepls': False,
           'accept': chars.enc(acc), 'repls': [], 'equ': [], 'single': [], 'outcome': 'returned', 'shell': True}
    if r['exit'] != 0 or 'Traceback' in r['stderr']:
        rec['outcome'] = 'shell-exit-%s' % r['exit']
        rec['stderr'] = r['stderr'][-300:]
        return rec
    try:
        ms = [m for m in json.loads(r['stdout'])['matches'] if m.get('rule', {}).get('id') == 'PRIVATE::SINGLE_LETTER']
        rec['single'] = [{'offset': m['offset'], 'length': m['length'], 'ctext': chars.enc(m['context']['text']),
                          'coffset': m['context']['offset'], 'clength': m['context']['length']} for m in ms]
    except Exception as ex:  # noqa
        rec['outcome'] = 'unparsable-report:' + type(ex).__name__
    return rec


def plain_shell_phase(c, tier, texts):
    q = tier == 'quick'
    c.rng.shuffle(texts)
    allph = placeholders(True)
    special = [chars.enc('x ' + ' '.join(allph) + ' y.\n'), chars.enc(' '.join(p + ' a.' for p in allph) + '\n'), chars.enc('\n'.join(allph) + '\n')]
    special += [chars.enc('so ' + p + ' b ' + p + '.\n') for p in allph]
    cases = []
    for t in special + texts[:60 if q else 1500]:
        if not ''.join(t).strip():
            continue
        for acc in ('A||', 'a.||', 'a'):
            for ml in (False, True):
                cases.append(dict(id='ps%d' % len(cases), txt=t, accept=acc, ml=ml))
    recs = c.drive(cases, drive_plain, chunksize=4)
    ok = [r for r in recs if r['outcome'] == 'returned']
    for r in recs:
        if r['outcome'] != 'returned':
            c.violation(r, 'shell-plain-input:' + r['outcome'])
    verdicts = c.validate('ObsChk: single-letter messages of the shell on plain input (trailing ||, multi-language)', 'ObsChk', ok,
                          project=lambda r: {k: r[k] for k in ('id', 'txt', 'accept', 'repls', 'hasaccept', 'hasrepls', 'single', 'equ')})
    for r in ok:
        v = verdicts[r['id']]['c20']
        if r['single']:
            c.nontrivial.add(json.dumps([r['txt'], r['accept_raw'], 'shell', r['ml']]))
        if v.startswith('drift:'):
            c.drift.append({'text': chars.dec(r['txt']), 'what': v})
        elif v != 'ok':
            c.violation(r, 'shell-plain-input:' + v, extra={'text': chars.dec(r['txt']), 'accept': r['accept_raw'], 'multi_language': r['ml']})
    c.extra['shell_plain_input_cases'] = len(ok)


def shell_phase(c, tier):
    """the single-letter check through the shell itself: several text parts (multi-language), all output modes;
    the message has to land on the isolated letter in the LaTeX file (ShellObs.tla with flag = a)"""
    import re
    from checks import shell14
    q = tier == 'quick'
    syms = ['a', 'sp', 'nl', '.', 'flD', 'cb', 'selD', 'fn', ',', 'lb']
    cfg = tlc.cfg_text(constants={'Sym': set(syms), 'MaxSym': 5 if q else 6, 'MaxDepth': 2, 'Free': False, 'Mode': 'normal'}, invariants=['SrcIsConc', 'Dump'])
    r = c.tlc('generator (isolated letters, several parts) E(%d)' % (5 if q else 6), 'Gen', cfg)
    docs = []
    for b in r.json('@@'):
        # keep documents in which every letter a is isolated: between two a there is a blank, line break or punctuation mark
        last = None
        ok_ = 'a' in b['doc']
        for s_ in b['doc']:
            if s_ == 'a':
                if last == 'a':
                    ok_ = False
                last = 'a'
            elif s_ in ('sp', 'nl', '.', ','):
                last = None
        d_ = b['doc']
        # an insertion may become a placeholder glued to a neighbouring letter
        if any((d_[k] == 'a' and d_[k + 1] == 'flD') or (d_[k] == 'cb' and d_[k + 1] == 'a') for k in range(len(d_) - 1)):
            ok_ = False
        if ok_:
            docs.append(b)
    c.rng.shuffle(docs)
    docs = docs[:400 if q else 5000]
    cases = []
    for i, b in enumerate(docs):
        cases.append(dict(id='sh%d' % i, doc=b['doc'], src=b['src'], mode=shell14.MODES[i % 5], ml=True, mainlang='en-GB',
                          single='z.B.||', ltflag='Q', flag='a'))
    shell_judge(c, cases)


def shell_judge(c, cases):
    import re
    from checks import shell14
    recs = c.drive(cases, shell14.drive_e2e, chunksize=4)
    ok = [x for x in recs if x['outcome'] == 'returned']
    for x in recs:
        if x['outcome'] != 'returned':
            c.violation(x, 'shell:no-report:' + x['outcome'])
    verdicts = c.validate('ShellObs: single-letter messages of the shell land on the letters in the LaTeX file', 'ShellObs', ok, project=shell14.project)
    glued = re.compile(r'\w(\w)-\1-\1|(\w)-\2-\2\w')
    nglue = 0
    for x in ok:
        v = verdicts[x['id']]['c14']
        c.nontrivial.add(hash((''.join(x['src']), x['mode'])))
        # a placeholder glued to a neighbouring letter (also through vanishing markup: a\label{k}\foreignlanguage...) is not
        # recognised as the accepted pattern, its letters then ARE isolated letters of the plain text: no expectation
        if v != 'ok' and any(glued.search(chars.dec(p['text'])) for p in x.get('parts') or []):
            nglue += 1
            continue
        if v != 'ok':
            c.violation(x, 'shell:' + v, extra={'text': chars.dec(x['src'])})
    c.extra['shell_level_cases'] = len(ok)
    c.extra['shell_level_cases_without_expectation_glued_placeholder'] = nglue


def run(prop, tier, seed, replay=None):
    c = core.Check(prop, tier, seed)
    q = tier == 'quick'
    c.rule = ('plain texts = all symbol sequences over {a blank placeholder(inline) . B NL , placeholder(displayed) é 1 _ NBSP NNBSP - b TAB} up to the '
              'bound (TLC, exhaustive) plus random longer ones, each with accept lists {absent, empty, a, a., a.|B, z.~B., é|b, a.||} and modes '
              '{absent, displayed, inline, all, abbreviations}; non-trivial = distinct (text, options) with at least one message or one accepted hit')
    cases = []
    if replay:
        cs = json.load(open(replay))['case']
        if cs.get('shell'):      # a case of the plain-input shell phase
            plain_replay = [dict(id='ps0', txt=cs['txt'], accept=cs['accept_raw'], ml=cs['ml'])]
            recs = c.drive(plain_replay, drive_plain, chunksize=1)
            verdicts = c.validate('ObsChk: replay', 'ObsChk', recs, project=lambda r: {k: r[k] for k in ('id', 'txt', 'accept', 'repls', 'hasaccept', 'hasrepls', 'single', 'equ')})
            for r in recs:
                if verdicts[r['id']]['c20'] != 'ok':
                    c.violation(r, 'shell-plain-input:' + verdicts[r['id']]['c20'])
            c.exhaustive = False
            return c.finish()
        if 'txt' not in cs:      # a case of the shell phase
            shell_judge(c, [{k: cs[k] for k in ('id', 'doc', 'src', 'mode', 'ml', 'mainlang', 'single', 'ltflag', 'flag')}])
            c.exhaustive = False
            return c.finish()
        cases = [dict(id=0, txt=cs['txt'], accept=cs['accept_raw'], mode=cs['mode'])]
    else:
        texts = []
        for nalpha, n in ((9, 4 if q else 5), (16, 3 if q else 4), (5, 5 if q else 7)):
            cfg = tlc.cfg_text(constants={'MaxSym': n, 'NAlpha': nalpha}, invariants=['LettersSane', 'PlaceholdersAccepted', 'EquSane', 'Dump'])
            r = c.tlc('texts <= %d over %d symbols' % (n, nalpha), 'GenChk', cfg)
            texts += [b['txt'] for b in r.json('@@')]
        rng = random.Random(seed)
        syms = ['a', ' ', PH_I, '.', 'B', '\n', ',', PH_D, 'é', '1', '_', ' ', ' ', '-', 'b', '\t', 'Word', 'word', ';', ':', 'z. B.', 'Ä']
        for _ in range(500 if q else 10000):
            texts.append(chars.enc(''.join(rng.choice(syms) for _ in range(rng.randint(4, 60)))))
        seen = set()
        for t in texts:
            key = tuple(t)
            if key in seen:
                continue
            seen.add(key)
            if q:
                combos = [(rng.choice(ACCEPTS), rng.choice(MODES)), (rng.choice(ACCEPTS[1:]), rng.choice(MODES[1:]))]
            else:
                combos = [(a, rng.choice(MODES)) for a in ACCEPTS] + [(rng.choice(ACCEPTS), m) for m in MODES]
            for a, m in set(combos):
                cases.append(dict(id=len(cases), txt=t, accept=a, mode=m))
    recs = c.drive(cases, drive)
    for r in recs:
        if r['outcome'] != 'returned':
            c.violation(r, 'no-result:' + r['outcome'])
    ok = [r for r in recs if r['outcome'] == 'returned']
    verdicts = c.validate('C20 predicates on real messages', 'ObsChk', ok,
                          project=lambda r: {k: r[k] for k in ('id', 'txt', 'accept', 'repls', 'hasaccept', 'hasrepls', 'single', 'equ')})
    kf = findings.load(prop)
    for r in ok:
        v = verdicts[r['id']]['c20']
        if r['single'] or r['equ']:
            c.nontrivial.add(json.dumps([r['txt'], r['accept_raw'], r['mode']]))
        if v.startswith('drift:'):
            c.drift.append({'text': chars.dec(r['txt']), 'mode': r['mode'], 'what': v})
        elif v != 'ok':
            hit = findings.match(kf, {'src': chars.dec(r['txt']), 'doc': []}, v)
            if hit:
                c.known_seen.append(hit)
            else:
                c.violation(r, v, extra={'text': chars.dec(r['txt'])})
    if not replay:
        shell_phase(c, tier)
        plain_shell_phase(c, tier, [r['txt'] for r in ok if r['single']][:4000])
    c.nontrivial = set(hash(x) for x in c.nontrivial if not isinstance(x, int)) | set(x for x in c.nontrivial if isinstance(x, int))
    for r in [x for x in ok if x['single'] or x['equ']][:5]:
        c.sample({'text': chars.dec(r['txt']), 'accept': r['accept_raw'], 'mode': r['mode'],
                  'single': [(m['offset'], m['length']) for m in r['single']], 'equ': [(m['offset'], m['length']) for m in r['equ']],
                  'verdict': verdicts[r['id']]['c20']})
    c.exhaustive = False
    c.assumptions = ['regular-expression semantics (\\b, \\w, \\s, alternation order) is modelled for the patterns checks.py builds',
                     'a placeholder that is offending but not reported is DRIFT, not a violation: the statement only constrains the messages produced',
                     'the option handling of shell.py for a trailing || is emulated by the driver (placeholders appended)']
    return c.finish()
