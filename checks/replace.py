"""C13: phrase replacement keeps text and position list consistent.
GenRepl.tla (TLC, exhaustive) enumerates texts x position patterns x rule lists and checks the
specified replacement (Replace.tla) against the clauses of the statement; the real
yalafi.utils.replace_phrases is called on every case (and tex2txt with repl on documents);
ObsRepl.tla compares each real result with the specification."""
import json
import random

from harness import chars, core, drivers, findings, tlc


def drive(case):
    import contextlib, io
    from yalafi import utils
    txt = chars.dec(case['txt'])
    lines = [chars.dec(l) for l in case['lines']]
    rec = dict(case)
    try:
        with contextlib.redirect_stderr(io.StringIO()):
            t, p = utils.replace_phrases(txt, list(case['pos']), lines)
        rec['otxt'] = chars.enc(t)
        rec['opos'] = list(p)
        rec['outcome'] = 'returned'
    except BaseException as e:  # noqa
        rec['outcome'] = 'exception:' + type(e).__name__
        rec['otxt'] = []
        rec['opos'] = []
    return rec


def drive_doc(case):
    """through tex2txt: compare the run with repl against the run without, replaced by the specification"""
    src = chars.dec(case['src'])
    lines = [chars.dec(l) for l in case['lines']]
    r0 = drivers.call_tex2txt(src, {}, case['ml'])
    r1 = drivers.call_tex2txt(src, {'repl': lines}, case['ml'])
    out = []
    if r0['outcome'] != 'returned' or r1['outcome'] != 'returned':
        return [dict(id=case['id'], txt=[], pos=[], lines=case['lines'], otxt=[], opos=[], outcome=r0['outcome'] + '/' + r1['outcome'])]
    if case['ml']:
        if len(r0['parts']) != len(r1['parts']):
            return [dict(id=case['id'], txt=[], pos=[], lines=case['lines'], otxt=[], opos=[], outcome='parts-differ')]
        for k, (a, b) in enumerate(zip(r0['parts'], r1['parts'])):
            main = a['lang'] == ''
            out.append(dict(id='%s.%d' % (case['id'], k), txt=a['plain'], pos=a['map'], lines=case['lines'] if main else [],
                            otxt=b['plain'], opos=b['map'], outcome='returned', src=case['src'], ml=True, rules=case['lines']))
    else:
        out.append(dict(id=case['id'], txt=r0['plain'], pos=r0['map'], lines=case['lines'], otxt=r1['plain'], opos=r1['map'], outcome='returned',
                        src=case['src'], ml=False, rules=case['lines']))
    return out


RULESETS = [['a b & a b c d'], ['b & bbbb', 'a & '], ['a & b c d', 'b & '], ['. & !'], ['a b & a'], ['a & a a a', '! & .'], ['b. & b']]


def doc_phase(c, tier, behaviours, replay_case=None):
    """C02 under --repl: TLC-generated documents are filtered with and without a rule list; what stands behind a replacement
    must keep its offsets, i.e. the run with rules equals Replace!ApplyAll applied to the run without (ObsRepl.tla)"""
    q = tier == 'quick'
    if replay_case:
        cases = [dict(id='rp0', src=replay_case['src'], ml=replay_case['ml'], lines=replay_case['rules'])]
    else:
        docs = [b for b in behaviours if 'a' in b['doc'] or 'b' in b['doc']]
        c.rng.shuffle(docs)
        docs = docs[:2500 if q else 30000]
        cases = [dict(id='rp%d' % i, src=b['src'], ml=(i % 3 == 2), lines=[chars.enc(l) for l in RULESETS[i % len(RULESETS)]]) for i, b in enumerate(docs)]
    recs = []
    for lst in c.drive(cases, drive_doc, chunksize=8):
        recs += lst
    ok = [r for r in recs if r['outcome'] == 'returned']
    srcs = {cs['id']: cs['src'] for cs in cases}
    verdicts = c.validate('ObsRepl: documents with and without --repl', 'ObsRepl', ok, project=lambda r: {k: r[k] for k in ('id', 'txt', 'pos', 'lines', 'otxt', 'opos')})
    n = 0
    for r in ok:
        v = verdicts[r['id']]['c13']
        if r['otxt'] != r['txt']:
            n += 1
        if v.startswith('length-') or v.startswith('positions-'):
            c.violation(r, 'repl:' + v, extra={'text': chars.dec(srcs.get(str(r['id']).split('.')[0], [])), 'rules': [chars.dec(l) for l in r['lines']],
                                             'without': chars.dec(r['txt']), 'with': chars.dec(r['otxt']), 'positions': r['opos']})
        elif v not in ('ok', 'excluded'):
            c.drift.append({'source': chars.dec(srcs.get(str(r['id']).split('.')[0], [])), 'what': 'phrase replacement on a document: ' + v})
    c.extra['repl_documents'] = len(ok)
    c.extra['repl_documents_with_a_replacement'] = n


WORDS = ['a', 'b', 'ab', 'a.', '.', '(', 'c', 'a(', 'ba', 'b.', '$', 'a*', '[b]', 'ä', 'a&b', 'R&D', '&b']


def run(prop, tier, seed, replay=None):
    c = core.Check(prop, tier, seed)
    q = tier == 'quick'
    c.rule = ('cases = all texts over {a b blank NL . c TAB (} up to the bound x 4 position-list patterns (identity, reversed, constant, '
              'non-monotonic) x 12 rule lists (shorter/equal/longer/empty right-hand side, regex metacharacters, comments, missing '
              'left-hand side, chained rules) enumerated by TLC, plus random texts/rule lists and documents through tex2txt(repl) in single and '
              'multi-language mode; non-trivial = distinct case in which at least one rule matches')
    cases = []
    if replay:
        cs = json.load(open(replay))['case']
        cases = [dict(id=0, txt=cs['txt'], pos=cs['pos'], lines=cs['lines'])]
    else:
        for nalpha, n in ((5, 4 if q else 5), (8, 3 if q else 4), (3, 6 if q else 8)):
            cfg = tlc.cfg_text(constants={'MaxLen': n, 'NAlpha': nalpha},
                               invariants=['LenEq', 'PosFromInput', 'NoMatchNoChange', 'NeverAcrossBlankLine', 'Dump'])
            r = c.tlc('texts <= %d over %d characters x patterns x rule lists' % (n, nalpha), 'GenRepl', cfg)
            for b in r.json('@@'):
                cases.append(dict(id=len(cases), txt=b['txt'], pos=b['pos'], lines=b['lines']))
        rng = random.Random(seed)
        for _ in range(2000 if q else 30000):
            n = rng.randint(1, 40)
            if rng.random() < 0.4:
                # texts made of the words the rules are made of: phrases match often (also words with & inside)
                txt = ''.join(rng.choice(WORDS) + rng.choice([' ', ' ', '\n', '  ', '\n\n', '\t']) for _ in range(rng.randint(1, 9)))
                n = len(txt)
            else:
                txt = ''.join(rng.choice('aab b. \n\t(c$*[]ä&') for _ in range(n))
            pos = [rng.randint(1, 99) for _ in range(n)]
            lines = []
            for _ in range(rng.randint(1, 3)):
                lhs = ' '.join(rng.choice(WORDS) for _ in range(rng.randint(1, 3)))
                rhs = ' '.join(rng.choice(WORDS + ['xyz', '', '\\euro', 'A\\\\B', '\\1', '\\g<0>', '\\n']) for _ in range(rng.randint(0, 3)))
                lines.append(lhs + ' & ' + rhs + (' # c' if rng.random() < 0.1 else ''))
            cases.append(dict(id=len(cases), txt=chars.enc(txt), pos=pos, lines=[chars.enc(l) for l in lines]))
    recs = c.drive(cases, drive)
    if not replay:
        # documents through tex2txt
        docs = ['a a&b b a\\&b', 'a b a. b\n\na b', 'a \\foo{b} a.\n b $x$ a b.', 'a b \\foreignlanguage{german}{a b c d e f} a b', 'a\\footnote{a b} b a  b']
        dcases = []
        for d in docs:
            for ml in (False, True):
                for ls in (['a b & c'], ['a & b c d', 'b & '], ['. & !'], ['a b & a'], ['a&b & c', 'b & a&b']):
                    dcases.append(dict(id='doc%d' % len(dcases), src=chars.enc(d), ml=ml, lines=[chars.enc(l) for l in ls]))
        for lst in c.drive(dcases, drive_doc, chunksize=2):
            recs += lst
    for r in recs:
        if r['outcome'] != 'returned':
            c.violation(r, 'no-result:' + r['outcome'])
    ok = [r for r in recs if r['outcome'] == 'returned']
    verdicts = c.validate('C13 predicate on real results', 'ObsRepl', ok, project=lambda r: {k: r[k] for k in ('id', 'txt', 'pos', 'lines', 'otxt', 'opos')})
    kf = findings.load(prop)
    for r in ok:
        v = verdicts[r['id']]['c13']
        if r['otxt'] != r['txt'] or r['opos'] != r['pos']:
            c.nontrivial.add(json.dumps([r['txt'], r['pos'], r['lines']]))
        if v not in ('ok', 'excluded'):
            hit = findings.match(kf, {'src': chars.dec(r['txt']), 'doc': []}, v)
            if hit:
                c.known_seen.append(hit)
            else:
                c.violation(r, v, extra={'text': chars.dec(r['txt']), 'rules': [chars.dec(l) for l in r['lines']], 'out': chars.dec(r['otxt'])})
    c.nontrivial = set(hash(x) for x in c.nontrivial)
    for r in [x for x in ok if x['otxt'] != x['txt']][:4]:
        c.sample({'text': chars.dec(r['txt']), 'pos': r['pos'], 'rules': [chars.dec(l) for l in r['lines']],
                  'out_text': chars.dec(r['otxt']), 'out_pos': r['opos'], 'verdict': verdicts[r['id']]['c13']})
    c.exhaustive = False
    c.assumptions = ['the statement is a functional specification: equality with Replace!ApplyAll is the property',
                     'regular-expression semantics is modelled only for the patterns replace_phrases builds (literal words, separators, word boundary)',
                     'lines with words but without & are outside the statement']
    return c.finish()
