"""C17: results do not depend on what was processed before.
History.tla (TLC) enumerates every history of up to 3 calls over a catalogue of (document, options) pairs built to touch every
kind of state (definitions, glossary entries, packages, babel options, language switches, placeholder rotation, open lists, error
marks, --defs, extraction, no-specials, theorem declarations) and checks independence on the model of process-level state;
every history is replayed in ONE real interpreter (fresh fork per history) and every result compared with the same call made
alone; the same for sequences of HTTP requests to one --as-server process.  ObsHist.tla judges."""
import hashlib
import json
import os
import socket
import subprocess
import sys
import time
import urllib.parse
import urllib.request

from harness import chars, core, drivers, findings, shelldrv, tlc
from checks import shell14

GLS = '/tmp/yvfiles/g.glsdefs'
CATALOGUE = [
    # (document, options, multi_language)
    ('\\newcommand{\\zz}{DEF}\\renewcommand{\\LaTeX}{XX} A \\zz \\LaTeX', {}, False),                       # 1 definitions
    ('A \\zz{} b \\LaTeX', {}, False),                                                                       # 2 use without definition
    ('\\LTinput{%s} see \\gls{ab} and \\Gls{ab}' % GLS, {'pack': 'glossaries'}, False),                      # 3 glossary loaded
    ('see \\gls{ab} here', {'pack': 'glossaries'}, False),                                                   # 4 glossary not loaded
    ('\\usepackage{xcolor}\\textcolor{red}{a} \\eqref{q}', {}, False),                                       # 5 package via document
    ('\\textcolor{red}{a} \\eqref{q} \\cref{x}', {}, False),                                                 # 6 no package
    ('\\usepackage[german]{babel} "a "` $x$ \\begin{proof} p \\end{proof}', {'pack': 'amsthm'}, False),      # 7 babel option
    ('"a $x$ $y$ \\begin{proof} p \\end{proof}', {'pack': 'amsthm'}, False),                                 # 8
    ('A \\selectlanguage{german} B \\foreignlanguage{french}{C D E F G} H $z$', {'pack': 'babel', 'lang': 'en-GB'}, True),   # 9 language switches
    ('$a$ $b$ $c$ \\[x\\] \\[y\\] \\eqref{q}', {'pack': 'amsmath,hyperref'}, False),                             # 10 rotation, packages by option
    ('$a$ \\[x\\] \\href{u}{v} \\eqref{q}', {}, False),                                                        # 11
    ('\\begin{enumerate}\\item a\\item b \\begin{enumerate}\\item c', {}, False),                            # 12 open lists
    ('\\item b \\begin{enumerate}\\item c\\end{enumerate}', {}, False),                                      # 13
    ('$x \\verb|y', {'defs': '\\newcommand{\\dd}{FROMDEFS}', 'extr': None}, False),                          # 14 error marks, --defs
    ('A\\footnote{F} \\dd \\section{S}', {'extr': 'footnote,section'}, False),                               # 15 extraction
    ('\\LTadd{x} \\LTskip{y} %%% LT-SKIP-BEGIN\nz\n%%% LT-SKIP-END\nw', {'nosp': True}, False),              # 16 no specials
    ('\\newtheorem{thm}{Theorem}\\begin{thm}[o] t \\end{thm}', {}, False),                                   # 17 theorem declared
    ('\\begin{thm}[o] t \\end{thm} \\LTadd{x} \\LTskip{y}', {}, False),                                      # 18 not declared
    ('A \\foreignlanguage{german}{B} C $u$', {'pack': 'babel', 'lang': 'de-DE', 'repl': ['A & XYZ']}, True),   # 19
    ('\\documentclass{scrbook}\\KOMAoption{x} a', {'unkn': True}, False),                                    # 20 class, unknowns
    ('\\usepackage[poorman]{cleveref}\\YYCleverefInput{/tmp/yvfiles/a.sed}see \\cref{eq:1} x', {}, False),        # 21 cleveref replacement table read
    ('\\usepackage[poorman]{cleveref}\\YYCleverefInput{/tmp/yvfiles/b.sed}see \\cref{eq:1} x', {}, False),        # 22 ... from a file without that label
    ('\\usepackage{babel}A \\foreignlanguage{czech}{ahoj} b', {'lang': 'en-GB'}, True),                       # 23 a language name babel does not know
    ('\\usepackage[czech]{babel}Ahoj.', {'lang': 'fr'}, True),                                               # 24 ... as package option
]


def make_files():
    os.makedirs('/tmp/yvfiles', exist_ok=True)
    content = '\\gls@defglossaryentry{ab}{name={ab},text={abt},plural={abts},description={d}}\n'
    if not os.path.exists(GLS) or open(GLS).read() != content:
        open(GLS, 'w').write(content)
    for name, content in (('a.sed', 's/\\\\cref{eq:1}/equation 1/g\n'), ('b.sed', 's/\\\\cref{eq:2}/equation 2/g\n')):
        p = os.path.join('/tmp/yvfiles', name)
        if not os.path.exists(p) or open(p).read() != content:
            open(p, 'w').write(content)


def proc_digest():
    """digest of module-level mutable objects of the yalafi modules (for drift reporting only)"""
    import yalafi
    h = hashlib.sha1()
    for name in sorted(sys.modules):
        if not name.startswith('yalafi'):
            continue
        mod = sys.modules[name]
        for k in sorted(vars(mod)):
            v = vars(mod)[k]
            if isinstance(v, (dict, list, set)) and not k.startswith('__'):
                try:
                    h.update((name + '.' + k + '=' + repr(v)[:4000]).encode())
                except Exception:  # noqa
                    pass
    return h.hexdigest()


def one_call(k):
    doc, opts, ml = CATALOGUE[k - 1]
    r = drivers.call_tex2txt(doc, {a: b for a, b in opts.items() if b is not None}, ml)
    keep = {x: r.get(x) for x in ('outcome', 'plain', 'map', 'parts')}
    keep['stderr'] = r['stderr'][-500:]
    return hashlib.sha1(json.dumps(keep, sort_keys=True).encode()).hexdigest(), keep


def drive_hist(case):
    """runs in a pool worker: fork a fresh child for the history so that nothing is shared between histories"""
    rfd, wfd = os.pipe()
    pid = os.fork()
    if pid == 0:
        try:
            os.close(rfd)
            res, changed = [], []
            import pkgutil, importlib, yalafi.tex2txt, yalafi.packages, yalafi.documentclasses  # noqa
            for pk in (yalafi.packages, yalafi.documentclasses):
                for mi in pkgutil.iter_modules(pk.__path__):
                    importlib.import_module(pk.__name__ + '.' + mi.name)      # so that imports do not count as state changes
            for k in case['hist']:
                d0 = proc_digest()
                res.append(one_call(k)[0])
                changed.append(proc_digest() != d0)
            os.write(wfd, json.dumps([res, changed]).encode())
        finally:
            os._exit(0)
    os.close(wfd)
    data = b''
    while True:
        chunk = os.read(rfd, 65536)
        if not chunk:
            break
        data += chunk
    os.close(rfd)
    os.waitpid(pid, 0)
    res, changed = json.loads(data.decode()) if data else ([], [])
    rec = dict(case)
    rec['results'] = res
    rec['procchanged'] = changed
    rec['solo'] = [case['solotab'][str(k)] for k in case['hist']]
    del rec['solotab']
    return rec


def solo_call(k):
    # the reference result of a call made alone: in a fresh child, like every history (a pool worker serves several calls)
    rec = drive_hist({'id': 'solo%d' % k, 'hist': [k], 'solotab': {str(k): ''}})
    return k, (rec['results'] or ['no-result'])[0]


# ------------------------------------------------------------------ server emulation
REQS = [
    {'language': 'en-GB', 'text': 'A b \\foo{b} c\n'},
    {'language': 'de-DE', 'text': 'X b\n\\newcommand{\\zz}{b b} \\zz\n'},
    {'language': 'en-GB', 'text': 'A \\zz b\n', 'disabledRules': 'RULE_B'},
    {'language': 'en-GB', 'text': '$x$ b $y$\n', 'enabledRules': 'RULE_E', 'disabledCategories': 'CAT'},
    {'language': 'en-GB', 'text': '$x$ b\n'},
]


def run_server_history(hist):
    import tempfile, shutil
    d = tempfile.mkdtemp(prefix='yv_srvh_')
    port = shell14.free_port()
    log = os.path.join(d, 'lt.log')
    env = dict(os.environ, PYTHONPATH=drivers.REPO, YV_LT_LOG=log, YV_LT_FLAG='b')
    cmd = [sys.executable, '-m', 'yalafi.shell', '--no-config', '--as-server', str(port), '--lt-command', sys.executable + ' ' + shelldrv.FAKE,
           '--lt-options', '~--disable RULE_A --enable RULE_X']
    p = subprocess.Popen(cmd, cwd=d, env=env, stdout=subprocess.DEVNULL, stderr=subprocess.DEVNULL)
    out = []
    try:
        for _ in range(60):
            try:
                socket.create_connection(('localhost', port), timeout=0.2).close()
                break
            except OSError:
                time.sleep(0.1)
        for k in hist:
            open(log, 'w').close()
            data = urllib.parse.urlencode(REQS[k - 1]).encode('ascii')
            try:
                ans = urllib.request.urlopen(urllib.request.Request('http://localhost:%d/v2/check' % port, data=data), timeout=20).read().decode()
            except Exception as e:  # noqa
                ans = 'FAILED ' + type(e).__name__
            out.append(hashlib.sha1((ans + open(log).read()).encode()).hexdigest())
    finally:
        p.kill()
        p.wait()
        shutil.rmtree(d, ignore_errors=True)
    return out


def drive_server(case):
    rec = dict(case)
    rec['results'] = run_server_history(case['hist'])
    rec['procchanged'] = [False] * len(case['hist'])
    rec['solo'] = [case['solotab'][str(k)] for k in case['hist']]
    del rec['solotab']
    return rec


def solo_server(k):
    return k, run_server_history([k])[0]


def run(prop, tier, seed, replay=None):
    make_files()
    c = core.Check(prop, tier, seed)
    q = tier == 'quick'
    n = len(CATALOGUE)
    c.rule = ('histories = all sequences of up to 3 calls over a catalogue of %d (document, options) pairs (TLC, exhaustive: %d histories), each '
              'replayed in one fresh interpreter and compared call by call with the call made alone; plus sequences of up to 3 HTTP requests over '
              '%d request kinds against one --as-server process vs a fresh server (thorough: plus 60 000 histories of 4 calls); non-trivial = distinct history of length >= 2' % (n, n + n * n + n ** 3, len(REQS)))
    if replay:
        cs = json.load(open(replay))['case']
        hs = [cs['hist']]
        kind = 'srv' if str(cs.get('id', '')).startswith('srv') else 'call'
    else:
        cfg = tlc.cfg_text(constants={'NCalls': n, 'MaxHist': 3 if q else 4, 'Coupled': False}, invariants=['Independence', 'Dump'])
        r = c.tlc('History.tla: all histories over %d calls, length <= %d' % (n, 3 if q else 4), 'History', cfg)
        hs = [b['hist'] for b in r.json('@@')]
        if not q:
            # all histories of up to 3 calls, a sample of those with 4
            long = [h for h in hs if len(h) > 3]
            c.rng.shuffle(long)
            hs = [h for h in hs if len(h) <= 3] + long[:60000]
        kind = 'call'
    solos = dict(c.drive(list(range(1, n + 1)), solo_call, chunksize=1))
    solotab = {str(k): v for k, v in solos.items()}
    recs = []
    if kind == 'call':
        cases = [dict(id=i, hist=h, solotab=solotab) for i, h in enumerate(hs)]
        recs += c.drive(cases, drive_hist, chunksize=8)
    if not replay or kind == 'srv':
        m = len(REQS)
        cfg = tlc.cfg_text(constants={'NCalls': m, 'MaxHist': 3 if q else 4, 'Coupled': False}, invariants=['Independence', 'Dump'])
        r = c.tlc('History.tla: all request sequences over %d request kinds' % m, 'History', cfg)
        shs = [b['hist'] for b in r.json('@@')] if not replay else hs
        ssolo = dict(c.drive(list(range(1, m + 1)), solo_server, chunksize=1))
        stab = {str(k): v for k, v in ssolo.items()}
        recs += c.drive([dict(id='srv%d' % i, hist=h, solotab=stab) for i, h in enumerate(shs)], drive_server, chunksize=1)
    verdicts = c.validate('ObsHist: every result equals the result of the same call alone', 'ObsHist', recs,
                          project=lambda x: {k: x[k] for k in ('id', 'hist', 'results', 'solo', 'procchanged')})
    kf = findings.load(prop)
    for x in recs:
        v = verdicts[x['id']]
        if len(x['hist']) >= 2:
            c.nontrivial.add(hash((str(x['id']).startswith('srv'), tuple(x['hist']))))
        if v['c17'] != 'ok':
            hit = findings.match(kf, {'src': json.dumps(x['hist']), 'doc': []}, v['c17'])
            if hit:
                c.known_seen.append(hit)
            else:
                c.violation(x, ('server:' if str(x['id']).startswith('srv') else '') + v['c17'] + ':history=' + json.dumps(x['hist']))
        elif v['drift'] != 'none':
            c.drift.append({'history': x['hist'], 'what': v['drift']})
    c.known_seen = sorted(set(c.known_seen))
    for x in recs[:2] + recs[-2:]:
        c.sample({'history': x['hist'], 'kind': 'server' if str(x['id']).startswith('srv') else 'interpreter',
                  'documents': [CATALOGUE[k - 1][0][:60] if not str(x['id']).startswith('srv') else REQS[k - 1] for k in x['hist']],
                  'verdict': verdicts[x['id']]['c17']})
    c.exhaustive = not q
    c.assumptions = ['the catalogue touches the kinds of state listed in the statement; files read by \\LTinput are constant',
                     'results are compared by digest of (outcome, text, positions / parts, diagnostics)']
    return c.finish()
