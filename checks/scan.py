"""Scanner conformance (Level B): Scanner.tla is model-checked (tiling, slice equation, longest special, comments, progress,
termination) for all strings over its alphabet up to a bound; the real Scanner.scan is run on those and on many other
sources, and ScanTrace.tla re-scans each source with the model's actions and compares token by token (DRIFT if the code
deviates from the model; no property is decided here)."""
import json

from harness import chars, core, drivers, tlc

KIND = {'VerbatimToken': None}


def drive(case):
    import contextlib, io
    from yalafi import tex2txt  # noqa (import order of the package)
    from yalafi import parameters
    p = parameters.Parameters('')
    src = chars.dec(case['src'])
    toks = []
    with contextlib.redirect_stderr(io.StringIO()):
        for t in p.scanner.scan(src):
            k = type(t).__name__
            if k == 'VerbatimToken' and t.environ:
                k = 'VerbatimEnv'
            elif k == 'TextToken' and t.pos_fix:
                k = 'ErrorToken'
            toks.append({'k': k, 'p': t.pos, 't': chars.enc(t.txt)})
    return {'id': case['id'], 'src': case['src'], 'toks': toks}


def phase(c, tier, extra_sources=()):
    q = tier == 'quick'
    inv = ['SliceEq', 'Tile', 'TileEnd', 'Longest', 'CommentKeepsBlankLine']
    srcs = []
    for nalpha, n in ((12, 4 if q else 5), (23, 3 if q else 4)):
        cfg = tlc.cfg_text(constants={'MaxSym': n, 'NAlpha': nalpha}, invariants=inv + ['Dump'], properties=['Progress', 'Terminates'])
        r = c.tlc('Scanner.tla: all sources of <= %d symbols over %d (invariants, progress, termination)' % (n, nalpha), 'Scanner', cfg, timeout=1800, extra=('-lncheck', 'final'))
        srcs += [b['src'] for b in r.json('@@')]
    srcs += list(extra_sources)
    c.rng.shuffle(srcs)
    srcs = srcs[:30000 if q else 400000]
    recs = c.drive([{'id': 'sc%d' % i, 'src': s} for i, s in enumerate(srcs)], drive)
    verdicts = c.validate('ScanTrace: the real scanner follows Scanner.tla token by token', 'ScanTrace', recs, spec='TSpec', invariants=inv, constants={'MaxSym': 0, 'NAlpha': 1})
    n = 0
    for r_ in recs:
        v = verdicts[r_['id']]['scan']
        if v != 'ok':
            n += 1
            c.drift.append({'source': chars.dec(r_['src']), 'what': 'scanner: ' + v})
    c.extra['scanner_sources_validated'] = len(recs)
    c.extra['scanner_drift'] = n
