"""Argument collection (Level B): Args.tla models Parser.expand_arguments / arg_buffer (skipping, issue 135, issue 23 recovery);
TLC checks for all token buffers and argument codes within the bounds that an argument list is never empty, a closing brace
is not taken as an argument and no text token is lost; the scenarios are replayed into the real code and ArgsTrace.tla
compares the collected arguments (DRIFT) and evaluates the mechanism invariants on the real result."""
from harness import core, tlc


def drive(case):
    import contextlib, io
    from yalafi import tex2txt  # noqa
    from yalafi import defs, parameters, parser, scanner
    parms = parameters.Parameters('')
    p = parser.Parser(parms)
    p.latex = 'x' * 200
    p.extracted = []
    got = {}

    def handler(parser_, buf, mac, args, delim, pos):
        got['args'] = args
        got['delims'] = delim
        return []
    mac = defs.Macro(parms, '\\m', args=''.join(case['codes']), repl=handler)

    def mk(t):
        k, q = t['k'], t['p']
        if k in ('{', '}'):
            return defs.SpecialToken(q, k)
        if k in ('[', ']', '*', 'a'):
            return defs.TextToken(q, k)
        if k == 'sp':
            return defs.SpaceToken(q, ' ')
        if k == 'par':
            return defs.ParagraphToken(q, '\n\n')
        if k == 'cm':
            return defs.CommentToken(q, '%c')
        if k == 'act':
            return defs.ActionToken(q)
        return defs.LanguageToken(q, lang='de-DE')

    def back(t):
        n = type(t).__name__
        if n == 'VoidToken':
            return {'k': 'void', 'p': t.pos}
        if n == 'TextToken' and t.pos_fix:
            return {'k': 'mark', 'p': t.pos}
        k = {'SpaceToken': 'sp', 'ParagraphToken': 'par', 'CommentToken': 'cm', 'ActionToken': 'act', 'LanguageToken': 'lng'}.get(n, t.txt)
        return {'k': k, 'p': t.pos}
    buf = scanner.Buffer([mk(t) for t in case['toks']])
    rec = {'id': case['id'], 'toks': case['toks'], 'codes': case['codes']}
    try:
        with contextlib.redirect_stderr(io.StringIO()):
            p.expand_arguments(buf, mac, 0)
        rec['args'] = [[back(t) for t in a] for a in got['args']]
        rec['delims'] = [bool(d) for d in got['delims']]
        rec['rest'] = [back(t) for t in buf.all()]
        rec['outcome'] = 'returned'
    except BaseException as e:  # noqa
        rec.update(args=[], delims=[], rest=[], outcome='exception:' + type(e).__name__)
    return rec


def phase(c, tier):
    q = tier == 'quick'
    inv = ['ArgNonEmpty', 'NoBraceArg', 'NothingLost', 'TextKept', 'RecoveryMarks', 'LangKept']
    cfg = tlc.cfg_text(constants={'MaxToks': 4 if q else 5, 'MaxArgs': 2}, invariants=inv)
    c.tlc('Args.tla: all token buffers of <= %d tokens x argument codes (never empty, no brace as argument, nothing lost, language switches kept)' % (4 if q else 5), 'Args', cfg, timeout=3000)
    cfg = tlc.cfg_text(constants={'MaxToks': 3 if q else 4, 'MaxArgs': 2}, properties=['Terminates'])
    c.tlc('Args.tla: termination (<= %d tokens)' % (3 if q else 4), 'Args', cfg, timeout=3000, extra=('-lncheck', 'final'))
    cfg = tlc.cfg_text(constants={'MaxToks': 3 if q else 4, 'MaxArgs': 2}, invariants=inv + ['Dump'])
    r = c.tlc('Args.tla: scenarios for replay', 'Args', cfg, timeout=3000, extra=('-lncheck', 'final'))
    scen = r.json('@@')
    c.rng.shuffle(scen)
    cases = [dict(id='ar%d' % k, toks=s['toks'], codes=s['codes']) for k, s in enumerate(scen[:8000 if q else 100000])]
    recs = c.drive(cases, drive)
    ok = [x for x in recs if x['outcome'] == 'returned']
    for x in recs:
        if x['outcome'] != 'returned':
            c.drift.append({'tokens': [t['k'] for t in x['toks']], 'codes': x['codes'], 'what': 'argument collection: ' + x['outcome']})
    verdicts = c.validate('ArgsTrace: the real argument collection along TLC scenarios', 'ArgsTrace', ok, spec='TSpec',
                          constants={'MaxToks': 0, 'MaxArgs': 0}, project=lambda x: {k: x[k] for k in ('id', 'toks', 'codes', 'args', 'delims', 'rest')})
    for x in ok:
        v = verdicts[x['id']]
        if v['mech'] != 'ok' or v['drift'] != 'none':
            c.drift.append({'tokens': [t['k'] for t in x['toks']], 'codes': x['codes'], 'what': 'argument collection: ' + (v['mech'] if v['mech'] != 'ok' else v['drift'])})
    c.extra['argument_scenarios_replayed'] = len(ok)
