"""C01 (position list: same length, in range) and C07 (totality), decided by

   GenFree.tla (TLC enumerates all snippet sequences: arbitrary, truncated, unbalanced input)
   + Gen.tla (well-formed documents, which the harness truncates at every character and
     deprives of every single symbol)
     -> real tex2txt under a covering array of option profiles (and the CLI for a sample)
     -> ObsFree.tla (TLC evaluates C01/C07 on every real observation)
"""
import json
import os
import subprocess
import sys
import tempfile

from harness import chars, core, drivers, findings, tlc

# every token kind, every handler class, fault-relevant delimiters
VOCAB = ['a', 'b', ' ', '\n', '\n\n', '%c\n', '{', '}', '[', ']', '$', '$$', '\\[', '\\]', '\\(', '\\)', '&', '\\\\', '~', '--',
         '#', '#1', '*', '\\foo', '\\label', '\\footnote', '\\section', '\\item', '\\begin', '\\end', '{itemize}', '{enumerate}',
         '{equation}', '{align}', '{verbatim}', '{proof}', '{x}', '{tabular}', '{lstlisting}', '\\verb', '|', '\\newcommand', '\\def',
         '\\"', '\\c', '\\cite', '\\ref', '\\textcolor', '\\gls', '\\caption', '\\LTskip', '\\LTadd', '\\LTalter', '\\LTinput',
         '%%% LT-SKIP-BEGIN\n', '%%% LT-SKIP-END\n', '\\selectlanguage', '\\foreignlanguage', '{german}', '\\usepackage', '{babel}',
         '\\text', '\\mbox', '\\hspace', '\\phantom', '\\newtheorem', '\\renewcommand', '.', ',', '=', '+', '\\xspace', '\\cref',
         '\\footcite', '\\documentclass', '\\item[', '\\,', '\\par', '"a', '"', '\\x', '\\newcommand{\\x}[2][d       e]{#1\\verb|vwxyz|#2}',
         '\\frac', '_', '^', '\\q', '\\newcommand{\\q}{\\begin{verbatim}uvw\\end{verbatim}}', '\\newglossaryentry', '\\texorpdfstring', '\\href', '\\substack', '\\begin{verbatim}', '\\end{verbatim}',
         '\\chapter', '\\title', '\\hphantom', '\\vspace', '\\framebox', '\\newacronym', '\\Gls', '\\includegraphics', '\\lstinputlisting',
         '\\begin{otherlanguage}', '\\end{otherlanguage}', '\\printbibliography', '\\textbackslash', '\\\'', '\\v', '\t', 'ä', 'Ж']
MID = ['a', ' ', '\n\n', '%c\n', '{', '}', '[', ']', '$', '$$', '\\[', '\\]', '&', '\\\\', '#1', '\\foo', '\\footnote', '\\section',
       '\\item', '\\begin', '\\end', '{itemize}', '{equation}', '{verbatim}', '\\verb', '|', '\\newcommand', '\\def', '\\"', '\\cite',
       '\\LTinput', '%%% LT-SKIP-BEGIN\n', '\\foreignlanguage', '{german}', '\\text', '\\x', '\\newcommand{\\x}[2][d       e]{#1\\verb|vwxyz|#2}',
       '\\gls', '\\item[', '"a']
CORE12 = ['{', '}', '[', ']', '$', '\\begin', '\\end', '\\item', '#1', '\\section', '\\verb', '\n\n']
KEYVAL = ['\\usepackage[a=', '\\documentclass[', '\\includegraphics[width=', '\\newglossaryentry{k}{name=', '{', '}', ']', ',', '=', 'b', '\\foo', ' ']
MID24 = ['a', '\n\n', '%c\n', '{', '}', '[', ']', '$', '\\[', '&', '#1', '\\foo', '\\footnote', '\\section', '\\item', '\\begin', '\\end',
         '{itemize}', '{equation}', '\\verb', '\\newcommand', '\\"', '\\foreignlanguage', '\\x']
# glossary entries (key-value lists with and without values, capitalisation that changes the length of a letter)
GLOSS = ['\\newglossaryentry{k}{', 'description', 'name', '=', ',', '{', '}', 'a', 'ß', '\\newacronym{k}{b}', '\\Gls{k}', '\\gls{k}', ' ',
         '\\Glsdesc{k}', '\\GLS{k}', '\\longnewglossaryentry{k}{name=b}']
# constructs whose text is mapped to the last characters of the source
ENDS = ['A', '\n', '\\newcommand{\\y}[1]{#1\n\n}', '\\y', '~', ' ', '{', '}', 'ß', '\\section', '\\footnote', '\\item', '$', '.',
        '\\newacronym{k}{b}', '\\LTinput{/tmp/yvfiles/f.tex}', '\\verb|', '\\newcommand{\\w}{b\n\n\\label{k}\n}', '\\w']
# macro definitions with parameter texts
DEFM = ['\\def\\x', '\\def\\y#1', '#1', '#2', '[', ']', '{', '}', 'a', ' ', '{#1}', '{#2}', '[#1]', '\\x', '\\y']
# numbers of arguments
NUMS = ['\\newcommand{\\y}[', '\\renewcommand{\\y}[', '99999999999999', '9', '10', '0', ']{', '][d]{', '#1', '#9', '}', '\\y', 'a', '{']
# one-argument constructs, nested in themselves: the work must not explode (a linear-size input)
NEST = ['\\section{', '\\subsection*{', '\\chapter{', '\\title{', '\\textbf{', '\\emph{', '\\footnote{', '\\caption{', '{', '\\textcolor{red}{',
        '\\foreignlanguage{german}{', '\\LTadd{', '\\LTalter{a}{', '\\href{u}{', '\\texorpdfstring{', '\\mbox{', '\\text{', '\\phantom{', '\\hspace{',
        '\\framebox{', '\\cite[', '\\item[', '$\\text{', '\\Gls{', '\\newglossaryentry{k}{description=', '\\underline{', '\\"{', '\\c{',
        '\\footnotetext{', '\\parbox{3cm}{', '\\frac{', '$\\frac{', '$\\sqrt{', '\\begin{x}', '\\begin{itemize}\\item ', '\\begin{proof}[',
        '\\begin{equation}\\mbox{', '\\[\\text{', '\\begin{otherlanguage}{german}', '\\begin{lstlisting}', '\\LTskip{', '\\hphantom{', '\\vspace{']
CORE8 = ['a', '{', '}', '$', '\\[', '\\footnote', '\\x', '\\newcommand{\\x}[2][d       e]{#1\\verb|vwxyz|#2}']

DEFS = ('\\newcommand{\\x}[2][d       e]{#1\\verb|vwxyz|#2}\n\\newcommand{\\q}{\\begin{verbatim}uvw\\end{verbatim}}\n'
        'text in the definitions \\footnote{and a footnote there}\n')
REPL = ['a b & a b c d', 'a & ', 'b & bbbbbbbb', '# comment', '& x', 'z.B. & zum Beispiel']
PROFILES = [
    dict(opts={}, ml=False),
    dict(opts={'pack': '*', 'lang': 'de'}, ml=False),
    dict(opts={'pack': '*', 'lang': 'en', 'defs': DEFS, 'repl': REPL}, ml=False),
    dict(opts={'pack': '*', 'dcls': 'scrbook', 'lang': 'ru', 'seqs': True}, ml=True),
    dict(opts={'pack': '*', 'lang': 'en', 'repl': REPL, 'defs': DEFS}, ml=True),
    dict(opts={'dcls': 'article', 'nosp': True, 'extr': 'footnote,section'}, ml=False),
    dict(opts={'pack': '*', 'unkn': True}, ml=False),
    dict(opts={'pack': 'babel,glossaries,xcolor', 'lang': 'de', 'seqs': True, 'repl': REPL}, ml=False),
]


def drive_free(case):
    src = case['text']
    r = drivers.call_tex2txt(src, case['opts'], case['ml'])
    rec = {'id': case['id'], 'doc': case['doc'], 'srclen': len(src), 'outcome': r['outcome'], 'parts': [],
           'text': src, 'opts': case['opts'], 'ml': case['ml'], 'stderr': r['stderr'][-300:]}
    unkn = bool(case['opts'].get('unkn'))
    if 'plain' in r:
        rec['parts'] = [{'plain': r['plain'], 'map': r['map'], 'unkn': unkn}]
    elif 'parts' in r:
        rec['parts'] = [{'plain': p['plain'], 'map': p['map'], 'unkn': False} for p in r['parts']]
    return rec


def project(rec):
    import re
    d = {k: rec[k] for k in ('id', 'doc', 'srclen', 'outcome', 'parts')}
    # name of the control sequence each snippet starts with (for the exclusion of self-recursive definitions)
    # all control sequences of the text in order (a snippet may hold several: \def\y#1)
    d['cs'] = re.findall(r'\\[A-Za-z@]+', rec.get('text') or ''.join(s_ for s_ in rec['doc'] if isinstance(s_, str)))
    return d


def free_docs(c, syms, n):
    cfg = tlc.cfg_text(constants={'NSym': len(syms), 'MaxSym': n, 'MinSym': 0}, invariants=['TypeOK', 'PrefixClosed', 'Dump'])
    r = c.tlc('free generator E(%d) over %d snippets' % (n, len(syms)), 'GenFree', cfg)
    return [[syms[i - 1] for i in b['doc']] for b in r.json('@@')]


def free_sim(c, syms, num, lo, hi):
    cfg = tlc.cfg_text(constants={'NSym': len(syms), 'MaxSym': hi, 'MinSym': lo}, invariants=['TypeOK', 'Dump'])
    r = c.tlc('free generator S(%d) length %d..%d over %d snippets' % (num, lo, hi, len(syms)), 'GenFree', cfg,
              simulate=num, depth=hi + 2, seed=c.seed, workers=4)
    return [[syms[i - 1] for i in b['doc']] for b in r.json('@@')]


BASE = ['a', ' ', '\n', '{', '}', '[', ']', '$', '\n\n', 'b']


def free_pairs(c, syms, num, lo, hi, nspecial=3):
    """focused simulation (GenFreePair.tla): at most nspecial distinct snippets besides the delimiters of BASE"""
    order = BASE + [s for s in syms if s not in BASE]
    cfg = tlc.cfg_text(spec='PSpec', constants={'NSym': len(order), 'MaxSym': hi, 'MinSym': lo, 'NBase': len(BASE), 'MaxSpecial': nspecial}, invariants=['TypeOK', 'Dump'])
    r = c.tlc('focused free generator P(%d) length %d..%d over %d snippets, <= %d special ones per document' % (num, lo, hi, len(order), nspecial), 'GenFreePair', cfg,
              simulate=num, depth=hi + 2, seed=c.seed, workers=4)
    return [[order[i - 1] for i in b['doc']] for b in r.json('@@')]


def wellformed_docs(c, num):
    from checks import flow
    syms = sorted(set(flow.PROSE + flow.COPY + flow.GENER))
    cfg = tlc.cfg_text(constants={'Sym': set(syms), 'MaxSym': 30, 'MaxDepth': 4, 'Free': False, 'Mode': 'normal'}, invariants=['Dump'])
    r = c.tlc('well-formed generator S(%d,50) for truncation/deletion' % num, 'Gen', cfg, simulate=num * 4, depth=50, seed=c.seed, workers=4)
    return r.json('@@')


def cli_sample(c, texts, prop):
    """python -m yalafi --nums: one number per character written to stdout (C01, last sentence)"""
    n = 0
    bad = []
    with tempfile.TemporaryDirectory(prefix='yv_cli_') as d:
        for k, t in enumerate(texts):
            fn = os.path.join(d, 't.tex')
            nums = os.path.join(d, 'nums')
            open(fn, 'w', encoding='utf-8').write(t)
            p = subprocess.run([sys.executable, '-m', 'yalafi', '--nums', nums, fn], cwd=drivers.REPO,
                               stdout=subprocess.PIPE, stderr=subprocess.PIPE, timeout=60)
            n += 1
            out = p.stdout.decode('utf-8')
            rec = {'id': 'cli%d' % k, 'doc': [], 'srclen': len(t), 'text': t, 'opts': {'cli': '--nums'}, 'ml': False, 'stderr': p.stderr.decode()[-300:]}
            if p.returncode != 0 or 'Traceback' in rec['stderr']:
                rec['outcome'] = 'exit:%d' % p.returncode
                rec['parts'] = []
            else:
                rec['outcome'] = 'returned'
                lines = open(nums).read().split('\n')
                if lines and lines[-1] == '':
                    lines.pop()
                try:
                    mp = [int(x.rstrip('+')) for x in lines]
                except ValueError:
                    mp = [-1]
                rec['parts'] = [{'plain': chars.enc(out), 'map': mp, 'unkn': False}]
            bad.append(rec)
    c.evaluations += n
    return bad


def run(prop, tier, seed, replay=None):
    key = {'C01': 'c01', 'C07': 'c07'}[prop]
    from checks import flow
    flow.make_files()
    c = core.Check(prop, tier, seed)
    c.rule = ('inputs = every snippet sequence enumerated by GenFree.tla (TLC, exhaustive at the listed bounds; closed under truncation and '
              'single-snippet deletion) plus every character-level truncation and single-symbol deletion of TLC-simulated well-formed documents, '
              'each under a covering array of option profiles; non-trivial = distinct (source text, profile) with at least one LaTeX-active character')
    cases = []
    if replay:
        case = json.load(open(replay))['case']
        cases = [dict(id=0, doc=case['doc'], text=case['text'], opts=case['opts'], ml=case['ml'])]
    else:
        q = tier == 'quick'
        if q:
            sets = [(VOCAB, 2, 'two'), (MID24, 3, 'one'), (CORE12, 4, 'one'), (CORE8, 4, 'two'), (KEYVAL, 4, 'one'),
                    (GLOSS, 3, 'two'), (ENDS, 3, 'one'), (NUMS, 3, 'one'), (DEFM, 3, 'one')]
            sims = [(VOCAB, 1500, 5, 14), (KEYVAL, 300, 4, 9), (GLOSS, 400, 4, 8), (ENDS, 600, 4, 8), (NUMS, 600, 4, 7), (DEFM, 1500, 3, 6)]
        else:
            sets = [(VOCAB, 2, 'all'), (MID, 3, 'two'), (CORE12, 5, 'two'), (CORE8, 6, 'two'), (KEYVAL, 5, 'two'), (VOCAB[:60], 3, 'one'),
                    (GLOSS, 4, 'two'), (ENDS, 4, 'one'), (NUMS, 4, 'two'), (DEFM, 4, 'two')]
            sims = [(VOCAB, 30000, 5, 16), (KEYVAL, 3000, 4, 10), (GLOSS, 6000, 5, 10), (ENDS, 8000, 5, 10), (NUMS, 6000, 5, 9), (DEFM, 10000, 4, 9)]
        seen = set()
        batches = [(free_docs(c, syms, n), prof) for syms, n, prof in sets]
        batches += [(free_sim(c, syms, num, lo, hi), 'one') for syms, num, lo, hi in sims]
        allsn = list(dict.fromkeys(VOCAB + GLOSS + ENDS + NUMS + DEFM + KEYVAL))
        batches += [(free_pairs(c, allsn, 3000 if q else 60000, 4, 10), 'one')]
        for docs, prof in batches:
            for d in docs:
                t = ''.join(d)
                if prof == 'all':
                    ps = range(len(PROFILES))
                elif prof == 'two':
                    ps = [0, 1 + c.rng.randrange(len(PROFILES) - 1)]
                else:
                    ps = [c.rng.randrange(len(PROFILES))]
                for p in ps:
                    if (t, p) in seen:
                        continue
                    seen.add((t, p))
                    cases.append(dict(id=len(cases), doc=d, text=t, opts=PROFILES[p]['opts'], ml=PROFILES[p]['ml']))
        c.extra['free_cases'] = len(cases)
        # truncation / deletion of well-formed documents
        wf = wellformed_docs(c, 40 if q else 600)
        nmut = 0
        for b in wf:
            text = chars.dec(b['src'])
            doc = b['doc']
            muts = set(text[:k] for k in range(1, len(text)))
            for k in range(len(doc)):
                sub = doc[:k] + doc[k + 1:]
                muts.add(None)
            # single-symbol deletion at text level: remove the k-th symbol's characters
            muts.discard(None)
            pieces = _pieces(b)
            for k in range(len(pieces)):
                muts.add(''.join(pieces[:k] + pieces[k + 1:]))
            for t in muts:
                p = c.rng.randrange(len(PROFILES))
                if (t, p) in seen or not t:
                    continue
                seen.add((t, p))
                cases.append(dict(id=len(cases), doc=['<mutant of>'] + doc, text=t, opts=PROFILES[p]['opts'], ml=PROFILES[p]['ml']))
                nmut += 1
        c.extra['truncation_deletion_cases'] = nmut
    if prop == 'C07' and not replay:
        from checks import args, keyvals
        args.phase(c, tier)
        keyvals.phase(c, tier)
        # linear-size inputs: every one-argument construct nested in itself
        for con in NEST:
            for depth in ((12, 24) if tier == 'quick' else (12, 24, 40)):
                close = ']' if con.endswith('[') else '}'
                if con.startswith('$'):
                    close += '$'
                elif con.startswith('\\begin{') or con.startswith('\\['):
                    inner = '}' if con.endswith('{') else (']' if con.endswith('[') else '')
                    close = inner + ('\\]' if con.startswith('\\[') else '\\end{' + con[7:con.index('}')] + '}')
                t = con * depth + 'x' + close * depth
                for p in (1, 3):
                    cases.append(dict(id=len(cases), doc=['<nest %d>' % depth, con], text=t, opts=PROFILES[p]['opts'], ml=PROFILES[p]['ml']))
        c.extra['nesting_probes'] = len(NEST)
    recs = c.drive(cases, drive_free)
    if not replay:
        # CLI: a sample of the inputs, biased to those ending in a pinned construct
        texts = [r['text'] for r in recs if r['outcome'] == 'returned' and r['parts'] and r['parts'][0]['plain']]
        c.rng.shuffle(texts)
        recs += cli_sample(c, texts[:40 if tier == 'quick' else 400], prop)
    verdicts = c.validate('C01/C07 predicates on real observations', 'ObsFree', recs, project=project)
    kf = findings.load(prop)
    for r in recs:
        v = verdicts[r['id']][key]
        if any(ch in r['text'] for ch in '\\{}$%&#~[]'):
            c.nontrivial.add((r['text'], json.dumps(r['opts'], sort_keys=True), r['ml']))
        if v not in ('ok', 'skipped', 'excluded'):
            hit = findings.match(kf, {'doc': [str(x) for x in r['doc']], 'src': r['text'], 'opts': r['opts']}, v)
            if hit:
                c.known_seen.append(hit)
            else:
                c.violation(r, v)
    c.known_seen = sorted(set(c.known_seen))
    c.nontrivial = set(hash(x) for x in c.nontrivial)
    for r in recs[:2] + recs[len(recs) // 2:len(recs) // 2 + 2] + recs[-2:]:
        c.sample({'text': r['text'], 'opts': r['opts'], 'ml': r['ml'], 'outcome': r['outcome'],
                  'parts': [{'plain': chars.dec(p['plain']), 'map': p['map']} for p in r['parts']][:2], 'verdict': verdicts[r['id']][key]})
    c.exhaustive = False
    c.assumptions = ['per-case limit of %ss CPU time (wall clock 40 times that) counts as a hang' % drivers.CASE_TIMEOUT,
                     'outside the claim (as in the statement): self-recursive definitions (decided by ObsFree!SelfRec on the document)']
    return c.finish()


def _pieces(b):
    """split the source text of a generated document into the texts of its symbols (using TLC's own Conc via prefix sums)"""
    # the generator emits only doc and src; symbol texts are recovered from the Conc table exported by Gen (see conc_table)
    tab = conc_table()
    return [chars.dec(tab[s]) for s in b['doc']]


_TAB = None


def conc_table():
    global _TAB
    if _TAB is None:
        cfg = tlc.cfg_text(constants={'Sym': {'a'}, 'MaxSym': 1, 'MaxDepth': 1, 'Free': False, 'Mode': 'normal'}, invariants=['Table'])
        r = tlc.run('Gen', cfg, workers=1)
        tlc.check_ok(r, 'catalogue table')
        _TAB = r.json('@T')[0]
    return _TAB
