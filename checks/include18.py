"""C18, second part: --include checks exactly the files reachable through \\input / \\include, each once, in discovery
order, without files matching --skip, and terminates on cycles.  Include.tla (TLC) explores the work-list algorithm on ALL
inclusion graphs within the bounds (safety, exactness, termination) and emits every scenario; the harness materialises the
files and runs `python -m yalafi.shell --include`; ObsInc.tla judges the observed work list."""
import json
import re

from harness import chars, core, drivers, shelldrv, tlc


def base(f):
    # one file has a dotted base name (adding .tex where missing must not depend on other dots)
    return 'f3.v2' if f == 3 else 'f%d' % f


def drive(case):
    n = case['n']
    files = {}
    for f in range(1, n + 1):
        lines = ['Text of file %d.' % f]
        for k, g in enumerate(case['inc'][f - 1]):
            # with and without the .tex extension, \input and \include, extra blanks
            if (f + k + g) % 3 == 0:
                lines.append('\\input{%s}' % base(g))
            elif (f + k + g) % 3 == 1:
                lines.append('\\include{%s.tex} more text' % base(g))
            else:
                lines.append('A \\input{%s} B' % base(g))
        lines.append('%% \\input{%s} in a comment' % base((f % n) + 1))
        files[base(f) + '.tex'] = '\n'.join(lines) + '\n'
    args = ['--include']
    if case['skip']:
        args += ['--skip', '|'.join(re.escape(base(s) + '.tex') for s in case['skip'])]
    args += [base(s) + '.tex' for s in case['start']]
    r = shelldrv.run_shell(files, args)
    rec = dict(case)
    rec['exit'] = r['exit']
    rec['stderr'] = r['stderr'][-300:]
    m = re.search(r'=== checking for file inclusions \.\.\. (.*)\n', r['stderr'])
    done = []
    if m and m.group(1).strip():
        for name in m.group(1).split(', '):
            mm = re.match(r'^f(\d+)(\.v2)?\.tex$', name.strip())
            done.append(int(mm.group(1)) if mm else 0)
    rec['done'] = done
    # the files actually proofread (progress lines) must be the same list
    checked = [int(x) for x in re.findall(r'^=== f(\d+)(?:\.v2)?\.tex$', r['stderr'], re.M)]
    if r['exit'] == 0 and checked != done:
        rec['done'] = checked if len(checked) > len(done) else done
        rec['exit'] = -3
    return rec


def phase(c, tier):
    q = tier == 'quick'
    cfg = tlc.cfg_text(constants={'N': 3, 'MaxInc': 2, 'Profile': 'quick' if q else 'thorough'}, invariants=['Safe', 'Exact', 'Dump'], properties=['Terminates'])
    r = c.tlc('Include.tla: all inclusion graphs on 3 files, <=2 inclusions each (safety, exactness, termination)', 'Include', cfg, timeout=1800)
    scen = r.json('@@')
    c.rng.shuffle(scen)
    scen = scen[:700 if q else 20000]
    cases = [dict(id='inc%d' % i, n=3, inc=s['inc'], start=s['start'], skip=sorted(s['skip']), model=s['done']) for i, s in enumerate(scen)]
    recs = c.drive(cases, drive, chunksize=4)
    verdicts = c.validate('ObsInc: observed work list of --include', 'ObsInc', recs,
                          project=lambda x: {k: x[k] for k in ('id', 'n', 'inc', 'start', 'skip', 'done', 'exit', 'model')})
    for x in recs:
        v = verdicts[x['id']]
        if any(x['inc']):
            c.nontrivial.add(hash(json.dumps([x['inc'], x['start'], x['skip']])))
        if v['c18'] != 'ok':
            c.violation(x, 'include:' + v['c18'])
        elif v['drift'] != 'none':
            c.drift.append({'scenario': [x['inc'], x['start'], x['skip']], 'observed': x['done'], 'model': x['model']})
    c.extra['inclusion_scenarios_run'] = len(recs)
    c.extra['inclusion_graphs_model_checked'] = r.distinct
    if recs:
        x = recs[0]
        c.sample({'inclusions': x['inc'], 'start': x['start'], 'skip': x['skip'], 'work_list': x['done'], 'verdict': verdicts[x['id']]['c18']})
