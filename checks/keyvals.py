"""Key-value lists (Level B): KeyVals.tla models Parser.parse_keyvals_list (package and class options, \\newglossaryentry, .glsdefs);
TLC checks for all token lists within the bound that the loop never runs away (the pre-fix design does: counterexample), that no
word is lost except at the place where "=" is expected, that keys are plain text; the token lists are replayed into the real
code and KeyValsTrace.tla compares the entries (DRIFT)."""
from harness import core, tlc


def drive(case):
    import contextlib, io
    from yalafi import tex2txt  # noqa
    from yalafi import defs, parameters, parser
    parms = parameters.Parameters('')
    p = parser.Parser(parms)
    p.latex = 'x' * 400
    p.extracted = []
    p.the_macros.pop('\\munk', None)
    mark = ' ' + parms.mark_latex_error + ' '

    def mk(t):
        k, q = t['k'], t['p']
        if k in ('{', '}'):
            return defs.SpecialToken(q, k)
        if k in ('a', 'b', '=', ','):
            return defs.TextToken(q, k)
        if k == 'sp':
            return defs.SpaceToken(q, ' ')
        if k == 'cm':
            return defs.CommentToken(q, '%c')
        return defs.MacroToken(q, '\\munk')

    def back(t):
        n = type(t).__name__
        if n == 'TextToken' and t.txt == mark:
            k = 'mark'
        elif n == 'TextToken' and t.txt in ('a', 'b', '=', ','):
            k = t.txt
        elif n == 'SpaceToken':
            k = 'sp'
        elif n == 'CommentToken':
            k = 'cm'
        elif n == 'SpecialToken' and t.txt in '{}':
            k = t.txt
        elif n == 'MacroToken':
            k = 'm'
        else:
            k = n + ':' + t.txt
        return {'k': k, 'p': t.pos}
    rec = {'id': case['id'], 'toks': case['toks']}
    try:
        with contextlib.redirect_stderr(io.StringIO()):
            res = p.parse_keyvals_list([mk(t) for t in case['toks']])
        vals = []
        for key, val in res:
            ks = []
            for part in key.replace(mark, '\x00').replace('\x00', '|M|').split('|'):
                if part == 'M':
                    ks.append('mark')
                else:
                    ks += list(part)
            vals.append({'key': ks, 'has': val is not None, 'val': [back(t) for t in (val or [])]})
        rec['vals'] = vals
        rec['outcome'] = 'returned'
    except BaseException as e:  # noqa
        rec.update(vals=[], outcome='exception:' + type(e).__name__)
    return rec


def phase(c, tier):
    q = tier == 'quick'
    inv = ['NeverEndless', 'Conserved', 'LostOnlyAtEquals', 'KeysPlain', 'Progress']
    n = 5 if q else 6
    c.tlc('KeyVals.tla: all token lists of <= %d tokens over 9 token kinds (never endless, nothing lost but at the place of "=", keys plain, progress)' % n,
          'KeyVals', tlc.cfg_text(constants={'MaxToks': n, 'SkipOpen': True}, invariants=inv), timeout=3000)
    c.tlc('KeyVals.tla: termination (<= 4 tokens)', 'KeyVals', tlc.cfg_text(constants={'MaxToks': 4, 'SkipOpen': True}, properties=['Terminates']),
          timeout=3000, extra=('-lncheck', 'final'))
    r = c.tlc('KeyVals.tla without the skip of an unclosed brace (design before fix 0740d9e): counterexample expected', 'KeyVals',
              tlc.cfg_text(constants={'MaxToks': 3, 'SkipOpen': False}, invariants=['NeverEndless']), allow_violation=True, timeout=600)
    c.extra['keyval_old_design_refuted_by_TLC'] = 'NeverEndless' in r.violated
    r = c.tlc('KeyVals.tla: token lists for replay', 'KeyVals', tlc.cfg_text(constants={'MaxToks': 4 if q else 5, 'SkipOpen': True}, invariants=['Dump']), timeout=3000)
    scen = r.json('@@')
    c.rng.shuffle(scen)
    cases = [dict(id='kv%d' % k, toks=s['toks']) for k, s in enumerate(scen[:7000 if q else 70000])]
    recs = c.drive(cases, drive)
    ok = [x for x in recs if x['outcome'] == 'returned']
    for x in recs:
        if x['outcome'] != 'returned':
            c.drift.append({'tokens': [t['k'] for t in x['toks']], 'what': 'key-value parser: ' + x['outcome']})
    verdicts = c.validate('KeyValsTrace: the real key-value parser along TLC token lists', 'KeyValsTrace', ok, spec='TSpec',
                          constants={'MaxToks': 8, 'SkipOpen': True}, project=lambda x: {k: x[k] for k in ('id', 'toks', 'vals')})
    for x in ok:
        v = verdicts[x['id']]
        if v['mech'] != 'ok' or v['drift'] != 'none':
            c.drift.append({'tokens': [t['k'] for t in x['toks']], 'what': 'key-value parser: ' + (v['mech'] if v['mech'] != 'ok' else v['drift'])})
    c.extra['keyval_lists_replayed'] = len(ok)
