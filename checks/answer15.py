"""C15: any proofreader answer gives an in-file report or a clean error, no traceback.
Answer.tla (TLC) enumerates every single mutation of a valid answer (field deletion, type change, integer perturbation,
byte truncation, empty / undecodable / wrong-shape answers, every in-range (offset, length) pair), checks on the model that
no access is unguarded, and predicts the outcome per output mode; the harness feeds every mutated answer to the real shell
in the five output modes; ObsAns.tla judges exit status, diagnostic, traceback and every reported location."""
import copy
import json
import os
import subprocess
import sys

from harness import chars, core, drivers, findings, shelldrv, tlc
from checks import shell14

TEX = 'Ab \\foo{cb} d\nxx b yy\nlast b\n'
# the same text with a German insertion: in multi-language mode the proofreader is called once per part and the offsets of
# the second answer are shifted by the length of the first part
TEXML = 'Ab \\foo{cb} d\n\\foreignlanguage{german}{Das b ist ein b deutscher Satz mit b} xx b yy\nlast b\n'
MODES = ['plain', 'json', 'xml', 'xml-b', 'html']
VALS = {'null': None, 'bool': True, 'int': 7, 'float': 1.5, 'str': 's', 'list': [1], 'dict': {'a': 1}}


def base_answer():
    r = shelldrv.run_shell({'t.tex': TEX}, ['--output', 'json', 't.tex'])
    text = r['log'][0]['stdin']
    out = subprocess.run([sys.executable, shelldrv.FAKE], input=text.encode(), stdout=subprocess.PIPE,
                         env=dict(os.environ, YV_LT_FLAG='b', YV_LT_LOG='', YV_LT_ANSWER='')).stdout
    base = json.loads(out)
    for m in (base['matches'][0], base['matches'][-1]):
        m['rule']['subId'] = '7'
        m['rule']['urls'] = [{'value': 'http://x/<&>"'}]
    return base, text


def apply(base, text, mut):
    """-> bytes of the mutated answer"""
    k = mut['kind']
    raw = json.dumps(base).encode()
    if k == 'truncate':
        return raw[:mut['val']]
    if k == 'empty':
        return b''
    if k == 'not-json':
        return b'<html>502 Bad Gateway</html>'
    if k == 'invalid-utf8':
        return b'{"matches": [], "x": "\xff\xfe"}'
    if k == 'json-null':
        return b'null'
    if k == 'json-list':
        return b'[1, 2]'
    if k == 'matches-empty':
        return b'{"matches": []}'
    a = copy.deepcopy(base)
    if k == 'pair':
        o, n = divmod(mut['val'], 1000)
        m = a['matches'][0]
        m['offset'], m['length'] = o, n
        a['matches'] = [m]
        return json.dumps(a).encode()
    mi = 0 if mut['which'] == 'first' else len(a['matches']) - 1
    path = mut['path']
    if k == 'perturb':
        val = {'-1': -1, '0': 0, 'last': len(text) - 1, 'len': len(text), 'len+1': len(text) + 1, '2^31': 2 ** 31}[mut['typ']]
    elif k == 'retype':
        val = VALS[mut['typ']]
    elif k == 'hostile':
        val = {'empty': '', 'newline': 'two\nlines\n', 'markup': '</span><b>&"\'>', 'long': 'x' * 5000}[mut['typ']]
    if path == 'matches':
        if k == 'delete':
            del a['matches']
        else:
            a['matches'] = val
        return json.dumps(a).encode()
    keys = path.split('.')[1:]
    cur = a['matches'][mi]
    for key in keys[:-1]:
        cur = cur[int(key)] if isinstance(cur, list) else cur[key]
    key = int(keys[-1]) if isinstance(cur, list) else keys[-1]
    if k == 'delete':
        del cur[key]
    else:
        cur[key] = val
    return json.dumps(a).encode()


def locations(mode, out):
    """only the locations of a report (the rest of a mutated answer may legitimately pass through unread)"""
    import re
    none = {'o': -1, 'n': -1, 'fromy': -1, 'fromx': -1, 'toy': -1, 'tox': -1, 'line': -1, 'col': -1}
    res = []
    if mode == 'plain':
        for m in re.finditer(r'^\d+\.\) Line (-?\d+), column (-?\d+), Rule ID:', out, re.M):
            res.append(dict(none, line=int(m.group(1)), col=int(m.group(2))))
    elif mode == 'json':
        for m in json.loads(out)['matches']:
            p = m.get('priv') or {}
            res.append(dict(none, o=int(m['offset']), n=int(m['length']), fromy=int(p['fromy']), fromx=int(p['fromx']), toy=int(p['toy']), tox=int(p['tox'])))
    elif mode in ('xml', 'xml-b'):
        import xml.etree.ElementTree as ET
        for e in ET.fromstring(out).findall('error'):
            res.append(dict(none, fromy=int(e.get('fromy')), fromx=int(e.get('fromx')), toy=int(e.get('toy')), tox=int(e.get('tox'))))
    elif mode == 'html':
        h = shelldrv.parse_html(out)
        if h.errors:
            raise ValueError('html structure: %r' % h.errors[:2])
        for tab in h.tables:
            for row in tab:
                num = row['num'].replace('\xa0', '').strip()
                if num:
                    res.append(dict(none, line=int(num)))
    return res


def drive(case):
    tex = TEXML if case.get('ml') else TEX
    r = shelldrv.run_shell({'t.tex': tex}, ['--output', case['mode'], '--link', '--context', '1'] + (['--multi-language'] if case.get('ml') else []) + ['t.tex'],
                           answer=case['answer'])
    rec = {'id': case['id'], 'mode': case['mode'], 'mut': case['mut'], 'predicted': case['predicted'], 'exit': r['exit'],
           'traceback': 'Traceback (most recent call last)' in r['stderr'] or 'Traceback (most recent call last)' in r['stdout'],
           'owndiag': '*** ' in r['stderr'] and ('error' in r['stderr'] or 'problem' in r['stderr']),
           'stderr': r['stderr'][-400:], 'answer': case['answer'].decode('latin-1')[:2000]}
    lines = tex.split('\n')[:-1]
    rec['nlines'] = len(lines)
    rec['linelen'] = [len(l) for l in lines]
    rec['textlen'] = len(tex)
    rec['ml'] = bool(case.get('ml'))
    locs = []
    if r['exit'] == 0 and not rec['traceback']:
        try:
            locs = locations(case['mode'], r['stdout'])
        except Exception as ex:  # noqa
            rec['exit'] = -2
            rec['stderr'] += ' UNPARSABLE REPORT ' + type(ex).__name__
    rec['locs'] = locs
    return rec


def run(prop, tier, seed, replay=None):
    c = core.Check(prop, tier, seed)
    q = tier == 'quick'
    c.rule = ('every single mutation of a valid four-match answer enumerated by Answer.tla: 19 fields x {delete, 6 wrong types} x {first, last match}, '
              '4 integer fields x 6 perturbations, byte truncations, 6 special answers, all (offset, length) pairs with length 0/1/2/to-the-end; '
              'each x output modes plain/json/xml/xml-b/html; non-trivial = distinct (mutation, mode)')
    base, text = base_answer()
    raw = json.dumps(base).encode()
    if replay:
        cs = json.load(open(replay))['case']
        cases = [dict(id=0, mode=cs['mode'], mut=cs['mut'], predicted=cs['predicted'], answer=cs['answer'].encode('latin-1'), ml=cs.get('ml', False))]
    else:
        cfg = tlc.cfg_text(constants={'NBytes': len(raw), 'TextLen': len(text), 'LengthGuarded': True,
                                      'FirstOff': base['matches'][0]['offset'], 'LastOff': base['matches'][-1]['offset']}, invariants=['NoTraceback', 'Dump'])
        r = c.tlc('Answer.tla: all single mutations, access model without unguarded reads', 'Answer', cfg)
        muts = r.json('@@')
        cases = []
        for m in muts:
            mu = m['mut']
            if mu['kind'] == 'truncate' and q and mu['val'] % 9 != seed % 9:
                continue
            if mu['kind'] == 'pair' and q and (mu['val'] // 1000) % 3 != seed % 3:
                continue
            try:
                ans = apply(base, text, mu)
            except (KeyError, IndexError, TypeError):
                continue
            for mode in MODES:
                cases.append(dict(id=len(cases), mode=mode, mut=mu, predicted=m['predict'][mode], answer=ans))
            # multi-language mode (two text parts, the answer is played for each): all mutations of the fields the shell reads itself
            if mu['kind'] not in ('truncate', 'pair') and (not q or mu.get('path', '') in ('', 'matches', 'm.offset', 'm.length', 'm.context.offset', 'm.context.length', 'm.context.text')
                                                           or len(cases) % 7 == seed % 7):
                for mode in (MODES if not q else [MODES[len(cases) % 5], 'plain']):
                    cases.append(dict(id=len(cases), mode=mode, mut=mu, predicted=m['predict'][mode], answer=ans, ml=True))
        c.extra['mutations'] = len(muts)
        c.exhaustive = not q
    recs = c.drive(cases, drive, chunksize=4)
    verdicts = c.validate('ObsAns: C15 predicate on real shell runs', 'ObsAns', recs,
                          project=lambda r: {k: r[k] for k in ('id', 'mode', 'exit', 'traceback', 'owndiag', 'nlines', 'linelen', 'textlen', 'locs', 'predicted')})
    kf = findings.load(prop)
    for r in recs:
        v = verdicts[r['id']]
        c.nontrivial.add(hash((json.dumps(r['mut'], sort_keys=True), r['mode'])))
        if v['c15'] != 'ok':
            hit = findings.match(kf, {'src': json.dumps(r['mut'], sort_keys=True) + ' mode=' + r['mode'], 'doc': []}, v['c15'])
            if hit:
                c.known_seen.append(hit)
            else:
                c.violation(r, v['c15'] + ':' + r['mut']['kind'] + ':' + r['mut']['path'] + ':' + str(r['mut']['typ']) + ':' + r['mode'])
        elif v['drift'] != 'none':
            c.drift.append({'mutation': r['mut'], 'mode': r['mode'], 'what': v['drift']})
    c.known_seen = sorted(set(c.known_seen))
    for r in recs[:2] + recs[len(recs) // 2:len(recs) // 2 + 2] + recs[-1:]:
        c.sample({'mutation': r['mut'], 'mode': r['mode'], 'exit': r['exit'], 'stderr': r['stderr'][-120:], 'locations': r['locs'][:2], 'verdict': verdicts[r['id']]['c15']})
    c.assumptions = ['one mutation per answer; the base answer has four matches incl. first / last flagged word of the text',
                     'a clean error = exit status 1 with a line starting *** on stderr']
    return c.finish()
