"""C02, C03, C04, C05: the text-flow properties, decided by

  Gen.tla  (TLC enumerates / simulates documents over Doc.tla's catalogue)
     -> real yalafi.tex2txt.tex2txt on every document
     -> Obs.tla (TLC recomputes the reference meaning of the document and
        evaluates the Level A predicates of Align.tla on the real observation)
"""
import json
import os

from harness import chars, core, drivers, findings, tlc

GEN_INV = ['SrcIsConc', 'AnchorsInSrc', 'AnchorsOrdered', 'FinalKeeps', 'Dump']

LAYOUT = ['a', 'b', 'sp', 'nl', 'cm', 'lb', 'uk']
LAYOUT2 = ['hs0', 'hsp', 'bp', 'ep', 'a', 'sp', 'nl', 'tab', 'cm', 'lb', 'ix', 'uk', 'ob', 'cb', 'skp', 'par', 'bl', 'el', 'q', 'bm', 'em', 'skb', 'ske', 'fn']
LINES = ['L_a', 'L_ia', 'L_iia', 'L_lb', 'L_ilb', 'L_tlb', 'L_uk', 'L_e', 'L_sp', 'L_cm', 'L_icm', 'L_alb', 'L_lba', 'L_par', 'L_skp', 'L_ob', 'L_cb', 'b']
LINES10 = ['L_a', 'L_iia', 'L_lb', 'L_ilb', 'L_uk', 'L_e', 'L_sp', 'L_cm', 'L_alb', 'b']
VERBL = ['L_a', 'L_iia', 'L_lb', 'L_ilb', 'L_vrb', 'vrb', 'vrb2', 'b', 'sp', 'L_cm', 'L_ob', 'L_cb', 'add', 'cb', 'fn']
# the end of a macro argument: what stands there must not act on the text behind the argument
ARGEND = ['a', 'sp', 'nl', 'uk', 'lb', 'tc', 'add', 'flD', 'cb', 'L_cb', 'fn']
# vanishing constructs alone on a line inside a detached flow (the line removal must run there, too)
FLOWLINES = ['fn', 'cap', 'cb', 'L_a', 'L_lb', 'L_cm', 'L_uk', 'a', 'sp']
ARGEND7 = ['a', 'nl', 'sp', 'flD', 'tc', 'cb', 'uk']
M1 = ['a', 'sp', 'dB', 'uB', 'uBt', 'cb', 'rB']
M2 = ['a', 'dC', 'uC', 'uCo', 'ocb', 'cb']
M3 = ['a', 'b', 'dD', 'uD', 'dE', 'uE', 'dG', 'uG', 'dB', 'cb', 'uB']
M4 = ['a', 'dA', 'uA', 'dF', 'uF', 'cb', 'sp', 'nl']
M6 = ['a', 'sp', 'ltD', 'rA', 'uA', 'dA', 'nl']
M5 = ['a', 'sp', 'dH', 'uH', 'cb', 'dC', 'uC', 'nl']
MALL = sorted(set(M1 + M2 + M3 + M4 + M5 + ['fn', 'nl', 'im', 'add']))
CITEO = ['a', 'sp', 'cto', 'ctc', 'ob', 'cb', 'rbk', 'b']
INL1 = ['a', 'sp', 'mo', 'mc', 'my', 'mpl', 'mdt', 'msp', 'mfr']
INL2 = ['a', 'mo', 'mc', 'mo2', 'mc2', 'my', 'mw', 'meq', 'mal', 'msb', 'mti', 'mcm', 'mob', 'mcb', 'fn', 'cb', 'add', 'it', 'bi', 'ei', 'sec']
INL3 = ['mo', 'mc', 'my', 'mdt', 'a', 'fn', 'cb']
INLALL = sorted(set(INL1 + INL2 + ['nl', 'lb', 'uk', '.', 'vbd', 'vbb', 'dI', 'uI', 'im']))
DSP1 = ['ba', 'ea', 'my', 'mdt', 'meq', 'mam', 'mnl']
DSP2 = ['ba', 'ea', 'my', 'mdt', 'mcm', 'meq', 'mpl', 'mtx', 'msp', 'mlb', 'mam', 'mnl']
DSP3 = ['a', 'ba', 'ea', 'bat', 'eat', 'bq', 'eq', 'bd', 'ed', 'bdd', 'edd', 'my', 'mw', 'mdt', 'meq', 'mtx', 'mnn', 'mlb', 'mfr', 'mal', 'msb', 'mti', 'mob', 'mcb', 'mam', 'mnl']
DSPALL = sorted(set(DSP3 + DSP2 + ['sp', 'nl', 'mo', 'mc']))
FAULTS = ['Fim', 'FimE', 'Fdm', 'FdmE', 'FeqE', 'FargE', 'FoptE', 'FvbE', 'FveE', 'Fsk', 'Facc', 'FaccD', 'FaccI', 'Flt']
FLT2 = ['ltE', 'ltD', 'uA', 'a', 'b', 'sp', 'nl', 'cm', 'lb', 'uk', 'ob', 'cb', 'fn', 'sec', 'im', 'add', 'it', 'bi', 'ei', 'vb', 'vbd', 'vbb', 'tie', 'skb', 'ske', 'q', 'mo', 'mc', 'my', 'bd', 'ed'] + FAULTS
EXTR = ['alt', 'acb', 'a', 'b', 'sp', 'nl', 'fn', 'xo', 'cap', 'cb', 'uk', 'ob', 'sec', 'add', 'tc', 'cmf', 'cm', 'skb', 'ske', 'q', 'fnq', 'bl', 'el', 'im', 'ref', 'lb', 'par', 'bi', 'ei', 'it']
UNKN = ['muk', 'ntm', 'bth', 'eth', 'hsu', 'phu', 'a', 'sp', 'uk', 'uk2', 'bu', 'eu', 'xo', 'cb', 'ob', 'fn', 'sec', 'add', 'tc', 'cmu', 'skb', 'ske', 'q', 'mo', 'mc', 'mal', 'my', 'bd', 'ed', 'dA', 'uA', 'dB', 'uB', 'uC', 'dC', 'lb', 'it', 'bi', 'ei', 'vb']
COPY = ['acc', 'tbs', 'itl', 'ilc', 'bi', 'ei', 'a', 'b', '.', 'sp', 'nl', 'cm', 'ob', 'cb', 'uk', 'add', 'fbx', 'tc', 'fn', 'cap', 'vb', 'vbd', 'vbb', 'tie', 'nd', 'md', 'lq', 'rq',
        'thin', 'pct', 'amp', 'dol', 'hsh', 'usc', 'lbr', 'rbr', 'lb', 'sec', 'im']
PROSE = ['gle', 'vbd', 'vbb', 'fct', 'ntm', 'bth', 'eth', 'itl', 'ilc', 'bp', 'ep', 'bt', 'et', 'tamp', 'tbsl', 'capo', 'seco', 'hsu', 'phu', 'alt', 'acb', 'ltD', 'uA', 'up', 'cto', 'ctc', 'a', 'b', '!', 'sp', 'nl', 'cm', 'uk', 'uk2', 'ob', 'cb', 'add', 'tc', 'fn', 'cap', 'sec', 'sub', 'bi', 'ei', 'be', 'ee', 'it',
         'bu', 'eu', 'skb', 'ske', 'q', 'fnq', 'skp', 'bl', 'el', 'lb', 'ix', 'cite', 'ref', 'im', 'imp', 'par', 'bm', 'em']
GENER = ['fct', 'ntm', 'bth', 'eth', 'itl', 'ilc', 'bp', 'ep', 'tamp', 'bt', 'et', 'hsp', 'phn', 'tbs', 'dB', 'dC', 'uB', 'uBt', 'uC', 'a', '.', 'sp', 'nl', 'ref', 'cite', 'im', 'imp', 'it', 'bi', 'ei', 'be', 'ee', 'sec', 'sub', 'fn', 'cap', 'cb', 'par', 'bm', 'em', 'lb', 'uk']

# per property: verdict key, list of exhaustive configs per tier (symbols, MaxSym, MaxDepth), simulation
CONFIG = {
    'C02': dict(key='c02', focus={'vrb', 'vrb2', 'lb', 'add', 'fbx', 'tc', 'fn', 'cap', 'vb', 'tie', 'nd', 'md', 'lq', 'rq', 'thin', 'pct', 'amp', 'dol', 'hsh', 'usc', 'lbr', 'rbr', 'cm', 'ob'},
                quick=[(COPY, 3, 2), (['a', 'b', 'sp', 'nl', 'cm', 'ob', 'cb', 'uk', 'add', 'fn', 'vb', 'tie', 'nd', 'pct'], 4, 2), (VERBL, 3, 2)],
                thorough=[(COPY, 4, 3), (['a', 'b', 'sp', 'nl', 'cm', 'ob', 'cb', 'uk', 'add', 'fn', 'vb', 'tie', 'nd', 'pct'], 5, 3), (VERBL, 5, 2)],
                sim=(COPY, 300, 3000)),
    'C03': dict(key='c03', focus={'fn', 'cap', 'sec', 'sub', 'it', 'skb', 'skp', 'bl', 'add', 'tc', 'cite', 'im', 'cm', 'uk', 'bu'},
                quick=[(PROSE, 3, 2), (['a', 'b', 'sp', 'uk', 'ob', 'cb', 'add', 'fn', 'sec', 'bi', 'ei', 'it', 'skp', 'cm', 'im'], 4, 3),
                       (CITEO, 6, 3), (['a', 'sp', 'fn', 'cap', 'cb', 'up', 'tc', 'lb'], 5, 2), (M3, 4, 2), (['a', 'sp', 'nl', 'gle', 'gld', 'glsC', 'fn', 'cb', 'sec'], 4, 2)],
                thorough=[(PROSE, 4, 3), (['a', 'b', 'sp', 'uk', 'ob', 'cb', 'add', 'fn', 'sec', 'bi', 'ei', 'it', 'skp', 'cm', 'im'], 5, 3),
                          (CITEO, 8, 3), (['a', 'sp', 'fn', 'cap', 'cb', 'up', 'tc', 'lb'], 7, 2), (M3, 6, 2)],
                sim=(PROSE, 300, 3000)),
    'C04': dict(key='c04', focus={'gls', 'uA', 'uB', 'uBt', 'uC', 'uCo', 'uD', 'uG', 'uF', 'ref', 'cite', 'im', 'imp', 'it', 'sec', 'sub', 'fn', 'cap', 'par', 'bm'},
                quick=[(GENER, 3, 2), (['a', 'sp', 'nl', 'ref', 'cite', 'im', 'it', 'be', 'ee', 'sec', 'fn', 'cb', 'par'], 4, 2),
                       (M1, 6, 2), (M2, 7, 2), (M3, 5, 2), (M4, 5, 2), (M5, 5, 2), (['a', 'sp', 'gld', 'gls', 'glsC', 'glsU', 'nl', 'fn', 'cb'], 5, 2), (['a', 'gld', 'gls', 'glsC', 'gle', 'sp'], 6, 1)],
                thorough=[(GENER, 4, 3), (['a', 'sp', 'nl', 'ref', 'cite', 'im', 'it', 'be', 'ee', 'sec', 'fn', 'cb', 'par'], 5, 3),
                          (M1, 8, 2), (M2, 9, 2), (M3, 6, 2), (M4, 7, 2), (['a', 'sp', 'gld', 'gls', 'glsC', 'glsU', 'gle', 'nl', 'fn', 'cb'], 6, 2)],
                sim=(GENER + ['gld', 'gls', 'glsC', 'glsU', 'gle'], 300, 3000)),
    'C09': dict(key='c09', focus={'uA', 'uB', 'uBt', 'uC', 'uCo', 'uD', 'uE', 'uG', 'uF'},
                quick=[(M1, 6, 2), (M2, 7, 2), (M3, 5, 2), (M4, 5, 2), (M5, 5, 2), (M6, 5, 1)],
                thorough=[(M1, 8, 2), (M2, 9, 2), (M3, 6, 2), (M4, 7, 2), (M5, 7, 2), (M6, 7, 1), (MALL, 4, 2)],
                sim=(MALL, 300, 3000), routes=True),
    'C10': dict(key='c10', focus={'mo', 'mo2'},
                quick=[(INL1, 7, 2), (INL2, 5, 3), (INL3, 9, 2), (['a', 'sp', 'im', 'dI', 'uI', 'sec', 'cb'], 6, 2)],
                thorough=[(INL1, 9, 2), (INL2, 6, 3), (INL3, 11, 2), (['a', 'sp', 'im', 'dI', 'uI', 'sec', 'cb', 'fn'], 7, 2)],
                sim=(INLALL, 300, 3000), variants=[{}, {'lang': 'de'}, {'lang': 'ru'}]),
    'C11': dict(key='c11', focus={'ba', 'bq', 'bd', 'bdd'},
                quick=[(DSP1, 6, 1), (DSP2, 5, 1), (DSP3, 4, 1), (['bat', 'eat', 'my', 'mdt', 'meq', 'mam', 'mnl', 'a'], 6, 1)],
                thorough=[(DSP1, 8, 1), (DSP2, 6, 1), (DSP3, 5, 1), (['bat', 'eat', 'my', 'mdt', 'meq', 'mam', 'mnl', 'a', 'mtx'], 7, 1)],
                sim=(DSPALL, 300, 3000), variants=[{}, {'lang': 'de'}, {'lang': 'ru', 'seqs': True}, {'seqs': True}]),
    'C08': dict(key='c08', focus=set(FAULTS),
                quick=[(['a', 'sp', 'nl', 'lb'] + FAULTS, 4, 1), (['a', 'nl', 'ltE', 'ltD'] + FAULTS, 3, 1), (FLT2, 3, 2), (['a', 'nl'] + FAULTS, 5, 1), (['a', 'sp', 'vbd', 'vbb', 'im', 'ob', 'cb', 'bi', 'ei', 'it'], 4, 2)],
                thorough=[(['a', 'sp', 'nl', 'lb'] + FAULTS, 5, 1), (FLT2, 4, 2), (['a', 'nl'] + FAULTS, 7, 1)],
                sim=(FLT2, 300, 3000), variants=[{}, {'seqs': True}, {'lang': 'ru'}]),
    'C18': dict(key='c18', focus={'fn', 'xo', 'cap', 'cmf', 'fnq'},
                quick=[(EXTR, 4, 2), (['a', 'sp', 'fn', 'xo', 'cb', 'uk', 'ob', 'cmf', 'sec'], 5, 3), (['a', 'b', 'alt', 'acb', 'cb', 'fn', 'sp'], 6, 2)],
                thorough=[(EXTR, 5, 3), (['a', 'sp', 'fn', 'xo', 'cb', 'uk', 'ob', 'cmf', 'sec'], 7, 3)],
                sim=(EXTR, 300, 3000), variants=[{'extr': 'footnote,xfoo,LTalter'}], mode='extr'),
    'C19': dict(key='c19', focus={'uk', 'uk2', 'bu', 'xo', 'uA', 'uB', 'uC', 'mal', 'cmu'},
                quick=[(UNKN, 3, 2), (['hsu', 'phu', 'a', 'uk', 'uk2', 'bu', 'eu', 'fn', 'cb', 'mo', 'mal', 'my', 'mc', 'cmu', 'skb', 'ske', 'uB', 'dB'], 4, 2),
                       (['a', 'sp', 'uk', 'mo', 'muk', 'mc', 'my', 'bd', 'ed', 'uk2'], 5, 1)],
                thorough=[(UNKN, 4, 3), (['a', 'uk', 'uk2', 'bu', 'eu', 'fn', 'cb', 'mo', 'mal', 'my', 'mc', 'cmu', 'skb', 'ske', 'uB', 'dB'], 6, 2)],
                sim=(UNKN, 300, 3000), variants=[{'unkn': True}, {'unkn': True, 'pack': '*'}, {'unkn': True, 'repl': ['foo & zzz', 'unk & a b', 'bar mb & x']}]),
    'C05': dict(key='c05', focus={'sp', 'nl', 'cm', 'tab', 'par', 'bm', 'bl', 'skb', 'lb', 'uk'},
                quick=[(LAYOUT, 5, 1), (LAYOUT2, 3, 2), (['a', 'sp', 'nl', 'cm', 'lb', 'uk', 'ob', 'cb', 'skp', 'par', 'tab'], 4, 2), (LINES10, 4, 1), (LINES, 3, 2), (ARGEND, 4, 2), (ARGEND7, 6, 2), (FLOWLINES, 5, 2)],
                thorough=[(LAYOUT, 6, 1), (LAYOUT2, 4, 2), (['a', 'sp', 'nl', 'cm', 'lb', 'uk', 'ob', 'cb', 'skp', 'par', 'tab'], 5, 2), (LINES10, 5, 1), (LINES, 4, 2), (ARGEND, 5, 2), (ARGEND7, 7, 2), (FLOWLINES, 6, 2)],
                sim=(LAYOUT2 + ['tc', 'add', 'flD'], 300, 3000)),
}
OPTS = {'pack': 'xcolor,listings,amsmath,glossaries,amsthm,biblatex,babel'}


def project(rec):
    d = {k: rec[k] for k in ('id', 'doc', 'src', 'plain', 'map')}
    d['ndef'] = rec.get('ndef', 0)
    d['lang'] = chars.enc((rec.get('opts') or {}).get('lang') or '')
    d['seqs'] = bool((rec.get('opts') or {}).get('seqs'))
    d['unkn'] = bool((rec.get('opts') or {}).get('unkn'))
    d['extr'] = bool((rec.get('opts') or {}).get('extr'))
    d['diags'] = rec.get('diags', [])
    d['prefix'] = rec.get('prefix', [])
    return d


DEFSYMS = {'rA', 'dA', 'dB', 'dC', 'dD', 'dE', 'dF', 'dG', 'rB', 'dH'}


def drive_list_unknown(case):
    """the shell's --list-unknown on several files at once: one section '=== file ===' per file that has unknowns"""
    import re
    from harness import shelldrv
    files = {'f%d.tex' % k: chars.dec(d['src']) for k, d in enumerate(case['docs'])}
    r = shelldrv.run_shell(files, ['--list-unknown', '--packages', OPTS['pack']] + sorted(files))
    recs = []
    secs = {}
    parts = re.split(r'^=== (f\d+\.tex) ===\n', r['stdout'], flags=re.M)
    for j in range(1, len(parts) - 1, 2):
        secs[parts[j]] = parts[j + 1]           # the raw text between two headers
    for k, d in enumerate(case['docs']):
        name = 'f%d.tex' % k
        txt = secs[name] if name in secs else '\n'        # a file without section: an empty list
        recs.append({'id': '%s.%d' % (case['id'], k), 'doc': d['doc'], 'src': d['src'], 'plain': chars.enc(txt), 'map': [], 'opts': {'unkn': True},
                     'outcome': 'returned' if r['exit'] == 0 and 'Traceback' not in r['stderr'] else 'shell-exit-%s' % r['exit'],
                     'files_of_the_call': [''.join(x['src']) for x in case['docs']], 'stderr': r['stderr'][-300:]})
    return recs


def drive_chunk(chunk):
    """cases that read the same definition file, one after the other in one process: the file is rewritten before each"""
    return [drive_routes(cs) for cs in chunk['cases']]


def drive_routes(case):
    for path, content in (case.get('files') or {}).items():
        with open(path, 'w', encoding='utf-8') as f:
            f.write(content)
    rec = drivers.drive_filter(case)
    rec['ndef'] = case.get('ndef', 0)
    rec['prefix'] = case.get('prefix', [])
    rec['files'] = case.get('files')
    return rec


MODE = 'normal'


def generate(c, confs, sim, tier):
    """-> list of behaviours {doc, src}, deduplicated by doc"""
    seen = {}
    for (syms, n, d) in confs:
        cfg = tlc.cfg_text(constants={'Sym': set(syms), 'MaxSym': n, 'MaxDepth': d, 'Free': False, 'Mode': MODE}, invariants=GEN_INV)
        r = c.tlc('generator E(%d) over %d symbols' % (n, len(syms)), 'Gen', cfg, coverage=False)
        for b in r.json('@@'):
            seen.setdefault(tuple(b['doc']), b)
    nex = len(seen)
    syms, nq, nt = sim
    num = nq if tier == 'quick' else nt
    cfg = tlc.cfg_text(constants={'Sym': set(syms), 'MaxSym': 40, 'MaxDepth': 4, 'Free': False, 'Mode': MODE}, invariants=GEN_INV)
    r = c.tlc('generator S(%d,60)' % num, 'Gen', cfg, simulate=num * 4, depth=60, seed=c.seed, workers=4)
    for b in r.json('@@'):
        seen.setdefault(tuple(b['doc']), b)
    nsim = len(seen) - nex
    # focused simulation (GenPair.tla): documents over all symbols of this property's alphabets in which two or three constructs
    # (besides letters, blanks, line breaks and braces) meet in many arrangements
    if MODE == 'normal':
        allsyms = set(syms)
        for (ss, n, d) in confs:
            allsyms |= set(ss)
        pnum = 1500 if tier == 'quick' else 25000
        cfg = tlc.cfg_text(spec='PSpec', constants={'Sym': allsyms, 'MaxSym': 9, 'MaxDepth': 3, 'Free': False, 'Mode': MODE,
                                                    'Base': {'a', 'b', 'sp', 'nl', 'cb', 'ob'} & allsyms | {'a'}, 'MaxSpecial': 3},
                           invariants=['SrcIsConc', 'AnchorsInSrc', 'PDump'])
        r = c.tlc('focused generator P(%d): <= 3 special symbols per document, %d symbols' % (pnum, len(allsyms)), 'GenPair', cfg, simulate=pnum,
                  depth=12, seed=c.seed, workers=8)
        for b in r.json('@@'):
            seen.setdefault(tuple(b['doc']), {'doc': b['doc'], 'src': b['src']})
    c.extra['documents_exhaustive'] = nex
    c.extra['documents_simulated'] = nsim
    c.extra['documents_focused_simulation'] = len(seen) - nex - nsim
    return list(seen.values())


def make_files():
    os.makedirs('/tmp/yvfiles', exist_ok=True)
    for name, content in (('e.tex', ''), ('d.tex', '\\newcommand{\\ma}{mn}'),
                          ('f.tex', 'text in the file\n\\footnote{a long footnote in the included file, longer than most documents of the generator}\n'),
                          ('g.glsdefs', '\\gls@defglossaryentry{ab}{name={ab},text={abt},plural={abts},description={d}}\n')):
        p = os.path.join('/tmp/yvfiles', name)
        if not os.path.exists(p) or open(p).read() != content:
            open(p, 'w').write(content)


def run(prop, tier, seed, replay=None):
    global MODE
    make_files()
    conf = CONFIG[prop]
    key = conf['key']
    MODE = conf.get('mode', 'normal')
    c = core.Check(prop, tier, seed)
    c.rule = ('documents = all well-formed symbol sequences of Doc.tla over the listed symbol sets up to the listed length '
              '(TLC, exhaustive) plus TLC-simulated longer ones; each is run through the real tex2txt and the observation '
              'is judged by Obs.tla; non-trivial = distinct source text containing at least one focus construct of the property')
    if replay and 'rules' in json.load(open(replay))['case']:      # a case of the --repl phase of C02
        from checks import replace
        replace.doc_phase(c, tier, [], replay_case=json.load(open(replay))['case'])
        c.exhaustive = False
        return c.finish()
    if replay:
        case = json.load(open(replay))['case']
        beh = [{'doc': case['doc'], 'src': case['src'], 'ndef': case.get('ndef', 0), 'prefix': case.get('prefix', []), 'files': case.get('files')}]
        OPTS.update(case.get('opts') or {})
    else:
        beh = generate(c, conf[tier], conf['sim'], tier)
    variants = conf.get('variants') or [{}]
    cases = []
    for i, b in enumerate(beh):
        vs = variants if (len(beh) < 4000 or tier == 'thorough') else [variants[i % len(variants)]]
        for k, v in enumerate(vs):
            cases.append({'id': '%d.%d' % (i, k) if len(variants) > 1 else i, 'doc': b['doc'], 'src': b['src'], 'opts': dict(OPTS, **v),
                          'ndef': b.get('ndef', 0), 'prefix': b.get('prefix', []), 'files': b.get('files')})
    scratch = None
    if conf.get('routes') and not replay:
        # C09: the leading block of definitions is also supplied through --defs and through a file read by \LTinput
        from checks import total
        import tempfile
        tab = total.conc_table()
        scratch = tempfile.mkdtemp(prefix='yvd')
        extra = []
        chunks = []
        ninp = 0
        for cs in cases:
            n = 0
            while n < len(cs['doc']) and cs['doc'][n] in DEFSYMS:
                n += 1
            if n == 0 or n == len(cs['doc']):
                continue
            block = [ch for s in cs['doc'][:n] for ch in tab[s]]
            rest = cs['src'][len(block):]
            extra.append(dict(cs, id='%s.defs' % cs['id'], src=rest, ndef=n, prefix=[], opts=dict(OPTS, defs=chars.dec(block))))
            # three consecutive cases share one file name and run in sequence in one process: a definition file is read
            # afresh by every conversion
            path = os.path.join(scratch, 'd%06d.tex' % (ninp // 3))
            pre = chars.enc('\\LTinput{%s}' % path)
            if ninp % 3 == 0:
                chunks.append({'cases': []})
            chunks[-1]['cases'].append(dict(cs, id='%s.input' % cs['id'], src=pre + rest, ndef=n, prefix=pre, files={path: chars.dec(block)}))
            ninp += 1
        cases += extra
        c.extra['route_cases'] = len(extra) + ninp
    try:
        recs = c.drive(cases, drive_routes)
        if scratch:
            for lst in c.drive(chunks, drive_chunk, chunksize=8):
                recs += lst
    finally:
        if scratch:
            import shutil
            shutil.rmtree(scratch, ignore_errors=True)
    ok = [r for r in recs if r['outcome'] == 'returned']
    for r in recs:
        if r['outcome'] != 'returned':
            # not returning is C07's subject; here the document simply has no observation -> report as violation of this
            # property only if it is well-formed input (it is: generator output), because then text is lost
            c.violation(r, 'no-result:' + r['outcome'])
    verdicts = c.validate('Level A predicates on real observations', 'Obs', ok, project=project)
    kf = findings.load(prop)
    for r in ok:
        v = verdicts[r['id']]
        if key == 'c09':
            # substitution semantics = conservation + exact positions of arguments + body text inside the call,
            # identically for the three supply routes (the expectation is shifted by the constant offset)
            v['c09'] = next((k + ':' + v[k] for k in ('c03', 'c02', 'c04') if v[k] not in ('ok', 'skipped')), 'ok')
        if set(r['doc']) & conf['focus']:
            c.nontrivial.add(''.join(r['src']))
        if v[key] not in ('ok', 'skipped'):
            hit = findings.match(kf, r, v[key], v.get('feat'))
            if hit:
                c.known_seen.append(hit)
            else:
                c.violation(r, v[key], extra={'verdict': v, 'plain': chars.dec(r['plain']), 'text': chars.dec(r['src'])})
    if prop in ('C05', 'C02') and not replay:
        from checks import lines
        lines.phase(c, tier, 'text' if prop == 'C05' else 'positions', beh, OPTS)
    if prop == 'C02' and not replay:
        from checks import replace
        replace.doc_phase(c, tier, beh)
    if prop == 'C19' and not replay:
        # the shell route: --list-unknown with three files per call (a file without unknowns must not end the report)
        docs = [r for r in ok if str(r['id']).endswith('.0') or '.' not in str(r['id'])]
        c.rng.shuffle(docs)
        docs = docs[:300 if tier == 'quick' else 6000]
        groups = [dict(id='lu%d' % (i // 3), docs=[{'doc': d['doc'], 'src': d['src']} for d in docs[i:i + 3]]) for i in range(0, len(docs) - 2, 3)]
        srecs = []
        for lst in c.drive(groups, drive_list_unknown, chunksize=2):
            srecs += lst
        sok = [r for r in srecs if r['outcome'] == 'returned']
        for r in srecs:
            if r['outcome'] != 'returned':
                c.violation(r, 'list-unknown:' + r['outcome'])
        sv = c.validate('Obs: sections of the shell report --list-unknown', 'Obs', sok, project=project)
        for r in sok:
            v = sv[r['id']]
            if v.get('bind') == 'ok' and v.get('c19', 'ok') not in ('ok', 'skipped'):
                c.violation(r, 'list-unknown:' + v['c19'], extra={'files': r['files_of_the_call'], 'section': chars.dec(r['plain'])})
        c.extra['list_unknown_files'] = len(sok)
    if prop == 'C18' and not replay:
        from checks import include18
        include18.phase(c, tier)
    if prop == 'C10' and not replay:
        from checks import multilang
        multilang.rotation_phase(c, tier)
    if prop == 'C09' and not replay:
        from checks import expand
        expand.phase(c, tier)
    import collections
    hist = collections.Counter(s for r in ok for s in set(r['doc']))
    c.extra['documents_containing_symbol'] = dict(sorted(hist.items(), key=lambda kv: -kv[1]))
    c.extra['focus_symbols_never_generated'] = sorted(s for s in conf['focus'] if hist[s] == 0)
    c.known_seen = sorted(set(c.known_seen))
    for r in ok[:3] + ok[-3:]:
        c.sample({'doc': r['doc'], 'source': chars.dec(r['src']), 'plain': chars.dec(r['plain']), 'map': r['map'], 'verdict': verdicts[r['id']][key]})
    c.exhaustive = False
    c.assumptions = ['reference meaning of the catalogue (spec/Doc.tla) follows the README and the property statement',
                     'options fixed to pack=xcolor,listings, defaults otherwise', 'TLC and the JSON/IOUtils community modules']
    return c.finish()
