"""C16: HTML report: faithful source, each match once, content cannot break the markup.
Html.tla (TLC) models the structure of a report (regions with context, overlap list, displayed lines), checks its design
invariants for ALL files / match lists / context sizes within the bounds and emits every scenario; the harness gives the file
hostile content (< > & " blank tab) and hostile messages / suggestions, calls the real genhtml.generate_html (and the shell
with --output html for a sample), parses the HTML with html.parser; ObsHtml.tla judges the parsed report."""
import json
import re

from harness import chars, core, drivers, shelldrv, tlc

ALPH = ['a', '<', '&', '"', '>', ' ', '\t', 'b', "'", ';']
# characters that str.splitlines() takes for line ends, but that do not end a line of the file
ALPH2 = ['a', '\x0c', 'b', '\u2028', '<', '\x0b', ' ', '\x85', 'c', '\x1c']
MSG = 'MSG%d <b>&amp;"quot" \'x\''
SUGGS = ['</span><td>"&lt;%d', '"q%d"', "it's>%d", 'two words %d', '&amp;%d']


def sugg(k, salt=0):
    return SUGGS[(k + salt) % len(SUGGS)] % k


def build_text(lens, variant):
    out = []
    i = variant
    for n in lens:
        line = ''
        for _ in range(n):
            line += 'a' if variant == 0 else (ALPH2[i % len(ALPH2)] if variant >= 8 else ALPH[i % len(ALPH)])
            i += 3
        out.append(line)
    return '\n'.join(out) + '\n'


def parse(out_html):
    h = shelldrv.parse_html(out_html)
    errs = list(h.errors)
    allowed = {'html', 'head', 'meta', 'body', 'a', 'h3', 'table', 'tr', 'td', 'span', 'br', 'ul', 'li', 'hr'}
    if h.tags - allowed:
        errs.append('unexpected tags %r' % sorted(h.tags - allowed))
    rows, hl, overlaps = [], [], []
    titles_ok = True
    if h.tables:
        for row in h.tables[0]:
            num = row['num'].replace('\xa0', '').strip()
            rows.append({'num': int(num) if num.isdigit() else 0, 'text': chars.enc(row['text'].replace(' ', ' '))})
            for (st, en, title) in row['hl']:
                t = title.replace(' ', ' ')
                m = re.search(r'MSG(\d+)', t)
                mid = int(m.group(1)) if m else 0
                if not m or (MSG % mid) not in t or not any((s_ % mid) in t for s_ in SUGGS):
                    titles_ok = False
                hl.append({'row': len(rows), 'st': st, 'en': en, 'mid': mid})
    for tab in h.tables[1:]:
        for row in tab:
            num = row['num'].replace('\xa0', '').strip()
            mids = set()
            for (st, en, title) in row['hl']:
                m = re.search(r'MSG(\d+)', title)
                mids.add(int(m.group(1)) if m else 0)
            overlaps.append({'num': int(num) if num.isdigit() else 0, 'text': chars.enc(row['text'].replace(' ', ' ')),
                             'mid': mids.pop() if len(mids) == 1 else 0})
    return rows, hl, overlaps, errs, titles_ok


def drive(case):
    import contextlib, io
    from yalafi import tex2txt
    from yalafi.shell import genhtml

    class Cmd:
        link = True
        context = case['ctx']

    def json_get(dic, item, typ):
        if not isinstance(dic, dict) or not isinstance(dic.get(item), typ):
            raise SystemExit('json ' + item)
        return dic.get(item)
    v = tex2txt.Aux()
    v.json_get = json_get; v.cmdline = Cmd(); v.highlight_style = 'background: orange; border: solid thin black'
    v.number_style = 'color: grey'; v.msg_LT_server_html = ''
    genhtml.init(v)
    tex = case['text']
    if Cmd.context < 0:
        Cmd.context = int(1e8)
    ms = []
    for k, (b, n) in enumerate(case['matches'], 1):
        ms.append({'offset': b, 'length': n, 'message': MSG % k, 'replacements': [{'value': sugg(k, case['id'] if isinstance(case['id'], int) else 0)}],
                   'context': {'text': tex[max(0, b - 3):b + n + 3].replace('\n', ' '), 'offset': min(b, 3), 'length': n},
                   'rule': {'id': 'R<%d>"' % k, 'urls': [{'value': 'http://x/?a=1&b=%d' % k}]}})
    rec = {'id': case['id'], 'src': chars.enc(tex), 'matches': [list(m) for m in case['matches']], 'neg': case['ctx'] < 0, 'ctx': case['ctx'],
           'hasmodel': case.get('model') is not None, 'model': case.get('model') or {'displayed': [], 'overlapped': []}}
    try:
        with contextlib.redirect_stderr(io.StringIO()):
            title, anchor, body, n = genhtml.generate_html(tex, list(range(1, len(tex) + 1)), ms, 't.tex')
        rows, hl, overlaps, errs, titles_ok = parse('<html><body>' + body + '</body></html>')
        rec.update(rows=rows, hl=hl, overlaps=overlaps, errs=len(errs), errlist=errs[:3], titles_ok=titles_ok, outcome='returned', html=body[:3000])
    except BaseException as e:  # noqa
        rec.update(rows=[], hl=[], overlaps=[], errs=0, titles_ok=True, outcome='exception:' + type(e).__name__)
    return rec


def run(prop, tier, seed, replay=None):
    c = core.Check(prop, tier, seed)
    q = tier == 'quick'
    c.rule = ('scenarios = all files of <= L lines x <= 2 characters, all sorted lists of <= M in-range matches (lengths 0..3: zero-length, adjacent, '
              'overlapping, multi-line), context sizes {0, 1, 2, whole file}, enumerated by Html.tla (TLC); each with plain and with hostile content '
              '(< > & " blank tab quote) and hostile messages / suggestions / rule ids / URLs; non-trivial = distinct (text, matches, context) with >= 1 match')
    if replay:
        cs = json.load(open(replay))['case']
        cases = [dict(id=0, text=chars.dec(cs['src']), matches=cs['matches'], ctx=-1 if cs['neg'] else cs['ctx'], model=cs['model'] if cs['hasmodel'] else None)]
    else:
        inv = ['RegionsOrdered', 'EachInOneRegion', 'InPlaceDisplayed', 'InPlaceDisjoint', 'WholeFile', 'Dump']
        confs = [dict(MaxLines=2, MaxLineLen=2, MaxMatches=2), dict(MaxLines=3, MaxLineLen=1, MaxMatches=2)] if q else \
                [dict(MaxLines=3, MaxLineLen=2, MaxMatches=2), dict(MaxLines=2, MaxLineLen=2, MaxMatches=3), dict(MaxLines=4, MaxLineLen=1, MaxMatches=2)]
        cases = []
        seen = set()
        for cf in confs:
            cfg = tlc.cfg_text(constants=dict(cf, Contexts={0, 1, 2, 99}), invariants=inv)
            r = c.tlc('Html.tla: all scenarios lines<=%(MaxLines)d len<=%(MaxLineLen)d matches<=%(MaxMatches)d' % cf, 'Html', cfg, timeout=1800)
            for b in r.json('@@'):
                key = json.dumps([b['lens'], b['matches'], b['ctx']])
                if key in seen:
                    continue
                seen.add(key)
                ctx = -1 if b['neg'] else b['ctx']
                for variant in ((0, 1 + len(cases) % 7, 8 + len(cases) % 3) if q else (0, 1, 4, 8, 9)):
                    cases.append(dict(id=len(cases), text=build_text(b['lens'], variant), matches=b['matches'], ctx=ctx,
                                      model={'displayed': sorted(b['displayed']), 'overlapped': sorted(b['overlapped'])}))
        # long lines and many lines (outside the model's bounds): Level A only
        rng = c.rng
        for _ in range(200 if q else 3000):
            nl = rng.randint(1, 12)
            text = ''.join(''.join(rng.choice(ALPH) for _ in range(rng.choice([0, 1, 5, 300]))) + '\n' for _ in range(nl))
            if len(text) < 3:
                continue
            ms = sorted((rng.randrange(len(text) - 1), rng.choice([0, 1, 2, 7])) for _ in range(rng.randint(1, 4)))
            ms = [m for m in ms if m[0] + max(1, m[1]) <= len(text) - 1]
            cases.append(dict(id=len(cases), text=text, matches=ms, ctx=rng.choice([-1, 0, 1, 2]), model=None))
    recs = c.drive(cases, drive)
    for r in recs:
        if r['outcome'] != 'returned':
            c.violation(r, 'no-report:' + r['outcome'])
    ok = [r for r in recs if r['outcome'] == 'returned']
    verdicts = c.validate('ObsHtml: C16 predicate on parsed reports', 'ObsHtml', ok,
                          project=lambda r: {k: r[k] for k in ('id', 'src', 'matches', 'neg', 'rows', 'hl', 'overlaps', 'errs', 'titles_ok', 'model', 'hasmodel')})
    for r in ok:
        v = verdicts[r['id']]
        if r['matches']:
            c.nontrivial.add(hash((''.join(r['src']), json.dumps(r['matches']), r['ctx'])))
        if v['c16'] != 'ok':
            c.violation(r, v['c16'])
        elif v['drift'] != 'none':
            c.drift.append({'text': chars.dec(r['src']), 'matches': r['matches'], 'ctx': r['ctx'], 'what': v['drift']})
    for r in [x for x in ok if x['matches']][:3]:
        c.sample({'text': chars.dec(r['src']), 'matches': r['matches'], 'context': r['ctx'], 'rows': [(x['num'], chars.dec(x['text'])) for x in r['rows']][:6],
                  'highlights': r['hl'][:4], 'overlaps': len(r['overlaps']), 'verdict': verdicts[r['id']]['c16']})
    c.exhaustive = False
    c.assumptions = ['the position list is the identity (as for --plain-input); html.parser is the reference for what is markup',
                     'the macro-name and unsure-position hacks of generate_html are not exercised (no backslash in the alphabet, no negative positions)']
    return c.finish()
