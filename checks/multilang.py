"""C12: multi-language mode assigns every word to exactly one part of the right language.
Gen.tla enumerates documents with babel commands; each runs through tex2txt(multi_language=True) with a
threshold and a main language, and in single-language mode; ObsML.tla judges assignment, the treatment of
short / long insertions and conservation against the reference (language stack semantics in Doc.tla)."""
import json

from harness import chars, core, drivers, findings, tlc

L1 = ['a', 'b', 'sp', '.', 'flD', 'flE', 'cb', 'selD', 'selE']
L2 = ['a', 'sp', 'flD', 'flF', 'cb', 'selF', 'babD', 'dclF', 'olD', 'eol', 'olsF', 'eols', 'fn', 'nl']
L3 = ['a', 'b', 'sp', 'flD', 'cb', 'fn', 'add', 'selD', 'lb', 'uk', 'ob', 'fnm', 'it']
LALL = sorted(set(L1 + L2 + L3))
OPTS = {'pack': 'xcolor,listings,amsmath,babel,amsthm'}
MAINS = ['en-GB', 'de-DE', '']


def drive(case):
    src = chars.dec(case['src'])
    opts = dict(OPTS)
    if case['mainlang']:
        opts['lang'] = case['mainlang']
    r = drivers.call_tex2txt(src, opts, True, case['thresh'])
    s = drivers.call_tex2txt(src, opts, False)
    rec = dict(case)
    rec['outcome'] = r['outcome'] if r['outcome'] != 'returned' else s['outcome']
    rec['parts'] = r.get('parts', [])
    rec['single'] = {'plain': s.get('plain', []), 'map': s.get('map', [])}
    return rec


def drive_split(case):
    """replay a TLC scenario of Linear.tla into the real utils.get_txt_pos_ml"""
    import contextlib, io
    from yalafi import tex2txt  # noqa (import order of the package)
    from yalafi import defs, parameters, utils
    parms = parameters.Parameters('en')
    parms.multi_language = True
    parms.ml_continue_thresh = case['thresh']
    toks = []
    for j, t in enumerate(case['toks'], 1):
        if t['k'] == 'ch':
            toks.append(defs.TextToken(j, t['c']) if t['c'] != ' ' else defs.SpaceToken(j, ' '))
        else:
            toks.append(defs.LanguageToken(j, lang=t['lang'], back=t['back'], hard=t['hard'], brk=t['brk']))
    rec = {'id': case['id'], 'toks': case['toks']}
    try:
        with contextlib.redirect_stderr(io.StringIO()):
            ml = utils.get_txt_pos_ml(toks, 'en', parms)
        parts = []
        for lang in ml:
            for txt, pos in ml[lang]:
                parts.append({'lang': lang, 'idx': [p for ch, p in zip(txt, pos) if ch == 'a']})
        rec['parts'] = parts
        rec['outcome'] = 'returned'
    except BaseException as e:  # noqa
        rec['parts'] = []
        rec['outcome'] = 'exception:' + type(e).__name__
    return rec


def splitter_phase(c, tier):
    """Linear.tla: the splitter as a state machine; design check for all token lists, replay into the real splitter"""
    q = tier == 'quick'
    recs = []
    for thresh in ((1,) if q else (0, 1, 2)):
        n = 5 if q else 6
        cfg = tlc.cfg_text(constants={'MaxToks': n, 'Thresh': thresh, 'OldDesign': False},
                           invariants=['EachOnce', 'RightLabel', 'InOrder', 'Dump'], properties=['Terminates'])
        r = c.tlc('Linear.tla: all token lists of <= %d tokens, threshold %d (each character once, right label, termination)' % (n, thresh), 'Linear', cfg, timeout=1800, extra=('-lncheck', 'final'))
        scen = r.json('@@')
        c.rng.shuffle(scen)
        cases = [dict(id='sp%d.%d' % (thresh, k), toks=s['toks'], thresh=thresh) for k, s in enumerate(scen[:6000 if q else 60000])]
        got = c.drive(cases, drive_split)
        for x in got:
            if x['outcome'] != 'returned':
                c.violation(x, 'splitter:no-result:' + x['outcome'])
        ok = [x for x in got if x['outcome'] == 'returned']
        verdicts = c.validate('LinearTrace: the real splitter along TLC scenarios (threshold %d)' % thresh, 'LinearTrace', ok, spec='TSpec',
                              constants={'MaxToks': 0, 'Thresh': thresh, 'OldDesign': False},
                              project=lambda x: {k: x[k] for k in ('id', 'toks', 'parts')})
        for x in ok:
            v = verdicts[x['id']]
            if v['c12'] != 'ok':
                c.violation(x, 'splitter:' + v['c12'])
            elif v['drift'] != 'none':
                c.drift.append({'tokens': x['toks'], 'what': v['drift']})
        recs += ok
    # the design before the fix: TLC must find the counterexample (documentation of the finding at design level)
    cfg = tlc.cfg_text(constants={'MaxToks': 4, 'Thresh': 1, 'OldDesign': True}, invariants=['RightLabel'])
    r = c.tlc('Linear.tla with OldDesign=TRUE: counterexample expected', 'Linear', cfg, allow_violation=True)
    c.extra['old_design_counterexample_found'] = 'RightLabel' in r.violated
    c.extra['splitter_scenarios_replayed'] = len(recs)


def rotation_phase(c, tier):
    """C10 in multi-language mode: formulas of each language rotate through that language's collection"""
    q = tier == 'quick'
    syms = ['a', 'sp', 'im', 'imp', 'flD', 'flE', 'cb', 'selD', 'selE']
    cfg = tlc.cfg_text(constants={'Sym': set(syms), 'MaxSym': 6 if q else 7, 'MaxDepth': 2, 'Free': False, 'Mode': 'normal'},
                       invariants=['SrcIsConc', 'Dump'])
    r = c.tlc('generator (formulas and language switches) E(%d)' % (6 if q else 7), 'Gen', cfg)
    cases = []
    for b in r.json('@@'):
        if sum(1 for s in b['doc'] if s in ('im', 'imp')) >= 2 and set(b['doc']) & {'flD', 'flE', 'selD', 'selE'}:
            cases.append(dict(id='ml%d' % len(cases), doc=b['doc'], src=b['src'], mainlang=['en-GB', 'de-DE'][len(cases) % 2], thresh=len(cases) % 4))
    recs = c.drive(cases, drive)
    ok = [x for x in recs if x['outcome'] == 'returned']
    verdicts = c.validate('C10 rotation per language (multi-language mode)', 'ObsML', ok,
                          project=lambda x: {k: x[k] for k in ('id', 'doc', 'src', 'mainlang', 'thresh', 'parts', 'single')})
    kf = findings.load('C10')
    for x in ok:
        v = verdicts[x['id']]
        c.nontrivial.add(''.join(x['src']) + x['mainlang'])
        if v['c10'] != 'ok':
            hit = findings.match(kf, x, v['c10'], v.get('feat'))
            if hit:
                c.known_seen.append(hit)
            else:
                c.violation(x, 'multi-language:' + v['c10'], extra={'text': chars.dec(x['src']),
                            'parts': [(p['lang'], chars.dec(p['plain']), p['map']) for p in x['parts']]})
    c.extra['multi_language_rotation_cases'] = len(ok)


def run(prop, tier, seed, replay=None):
    c = core.Check(prop, tier, seed)
    q = tier == 'quick'
    c.rule = ('documents over words, sentence ends, \\\\selectlanguage, \\\\foreignlanguage, otherlanguage(*), babel option, footnotes, arguments '
              '(TLC, exhaustive at the bound + simulated), each with a main language in {en-GB, de-DE, none} and a threshold in 0..5; '
              'non-trivial = distinct (source, main language, threshold) with at least one language command')
    if replay:
        cs = json.load(open(replay))['case']
        cases = [dict(id=0, doc=cs['doc'], src=cs['src'], mainlang=cs['mainlang'], thresh=cs['thresh'])]
    else:
        seen = {}
        for syms, n, d in ((L1, 5 if q else 6, 2), (L2, 4 if q else 5, 2), (L3, 4 if q else 5, 3), (['a', 'sp', 'flD', 'cb', 'b'], 8 if q else 10, 2), (['a', 'flE', 'fn', 'cb', 'selF'], 8 if q else 9, 2)):
            cfg = tlc.cfg_text(constants={'Sym': set(syms), 'MaxSym': n, 'MaxDepth': d, 'Free': False, 'Mode': 'normal'},
                               invariants=['SrcIsConc', 'AnchorsInSrc', 'FinalKeeps', 'Dump'])
            r = c.tlc('generator E(%d) over %d symbols' % (n, len(syms)), 'Gen', cfg)
            for b in r.json('@@'):
                seen.setdefault(tuple(b['doc']), b)
        num = 300 if q else 3000
        cfg = tlc.cfg_text(constants={'Sym': set(LALL), 'MaxSym': 30, 'MaxDepth': 3, 'Free': False, 'Mode': 'normal'}, invariants=['Dump'])
        r = c.tlc('generator S(%d,50)' % num, 'Gen', cfg, simulate=num * 4, depth=50, seed=seed, workers=4)
        for b in r.json('@@'):
            seen.setdefault(tuple(b['doc']), b)
        cases = []
        langsyms = {'flD', 'flE', 'flF', 'selD', 'selE', 'selF', 'babD', 'olD', 'olsF'}
        for i, b in enumerate(seen.values()):
            if not (set(b['doc']) & langsyms):
                continue
            combos = [(MAINS[i % 3], c.rng.randrange(6))] if q else [(MAINS[(i + k) % 3], (i + 2 * k) % 6) for k in range(3)]
            for m, t in combos:
                cases.append(dict(id=len(cases), doc=b['doc'], src=b['src'], mainlang=m, thresh=t))
    if not replay:
        splitter_phase(c, tier)
        if q and len(cases) > 30000:
            # quick: all documents with an insertion-related construct are kept in thorough runs; here a seeded sample
            c.rng.shuffle(cases)
            cases = cases[:30000]
    recs = c.drive(cases, drive)
    for r in recs:
        if r['outcome'] != 'returned':
            c.violation(r, 'no-result:' + r['outcome'])
    ok = [r for r in recs if r['outcome'] == 'returned']
    verdicts = c.validate('C12 predicates on real observations', 'ObsML', ok,
                          project=lambda r: {k: r[k] for k in ('id', 'doc', 'src', 'mainlang', 'thresh', 'parts', 'single')})
    kf = findings.load(prop)
    for r in ok:
        v = verdicts[r['id']]
        c.nontrivial.add((''.join(r['src']), r['mainlang'], r['thresh']))
        if v['c12'] != 'ok':
            hit = findings.match(kf, r, v['c12'], v.get('feat'))
            if hit:
                c.known_seen.append(hit)
            else:
                c.violation(r, v['c12'], extra={'text': chars.dec(r['src']),
                                                'parts': [(p['lang'], chars.dec(p['plain']), p['map']) for p in r['parts']]})
    c.known_seen = sorted(set(c.known_seen))
    c.nontrivial = set(hash(x) for x in c.nontrivial)
    for r in ok[:2] + ok[-3:]:
        c.sample({'source': chars.dec(r['src']), 'mainlang': r['mainlang'], 'thresh': r['thresh'],
                  'parts': [(p['lang'], chars.dec(p['plain']), p['map']) for p in r['parts']], 'verdict': verdicts[r['id']]['c12']})
    c.exhaustive = False
    c.assumptions = ['language in force = stack semantics of Doc.tla (babel option and \\selectlanguage replace, \\foreignlanguage / otherlanguage push)',
                     'the placeholder clause is demanded only for single-language insertions with text of the surrounding language on both sides']
    return c.finish()
