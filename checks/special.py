"""C06: fixed point on prose, special sequences by the documented table.
GenStr.tla enumerates all strings over the alphabet (TLC, exhaustive), the real
filter rewrites each, ObsStr.tla compares with the declarative Special!RefRewrite."""
import json
import random

from harness import chars, core, drivers, findings, tlc


def drive(case):
    r = drivers.call_tex2txt(chars.dec(case['src']), {})
    rec = {'id': case['id'], 'src': case['src'], 'outcome': r['outcome'], 'plain': r.get('plain', []), 'map': r.get('map', [])}
    return rec


PROSE = 'abcdefghijklmnopqrstuvwxyzABCDEFGHIJKLMNOPQRSTUVWXYZ0123456789 .,;:!?()/*+=<>@|\n\täßЖ中-`\''
SPECIALS = ['--', '---', '``', "''", '~', '\\,', '\\%', '\\&', '\\$', '\\#', '\\_', '\\{', '\\}', '\\\\', '&']


def run(prop, tier, seed, replay=None):
    c = core.Check(prop, tier, seed)
    c.rule = ('all strings over the 19-symbol alphabet {a b blank NL . - ` \' ~ \\, \\% \\& \\$ \\# \\_ \\{ \\} \\\\ &} up to the bound and over the '
              '6-symbol dash/quote/line-break alphabet up to a larger bound (TLC, exhaustive, minus strings with a special sequence on an '
              'otherwise blank line), plus random longer strings of prose and special sequences; non-trivial = distinct string containing a special sequence or a line break')
    q = tier == 'quick'
    srcs = []
    if replay:
        srcs = [json.load(open(replay))['case']['src']]
    else:
        for alpha, n in (('full', 3 if q else 4), ('dash', 6 if q else 7)):
            cfg = tlc.cfg_text(constants={'AlphaSet': alpha, 'MaxSym': n}, invariants=['RefSane', 'Dump'])
            r = c.tlc('all strings, alphabet %s, length <= %d' % (alpha, n), 'GenStr', cfg)
            srcs += [b['src'] for b in r.json('@@')]
        rng = random.Random(seed)
        for _ in range(1000 if q else 20000):
            ln = rng.randint(5, 120 if q else 200)
            s = ''
            while len(s) < ln:
                s += rng.choice(SPECIALS) if rng.random() < 0.25 else rng.choice(PROSE)
            srcs.append(chars.enc(s))
        c.exhaustive = False
    cases = [{'id': i, 'src': s} for i, s in enumerate(srcs)]
    recs = c.drive(cases, drive)
    for r in recs:
        if r['outcome'] != 'returned':
            c.violation(r, 'no-result:' + r['outcome'])
    ok = [r for r in recs if r['outcome'] == 'returned']
    verdicts = c.validate('C06 predicate on real observations', 'ObsStr', ok)
    kf = findings.load(prop)
    nexcl = 0
    for r in ok:
        v = verdicts[r['id']]['c06']
        if v == 'excluded':
            nexcl += 1
            continue
        if len(r['src']) != len(r['plain']) or 'NL' in r['src']:
            c.nontrivial.add(''.join(r['src']))
        if v != 'ok':
            hit = findings.match(kf, r, v)
            if hit:
                c.known_seen.append(hit)
            else:
                c.violation(r, v, extra={'text': chars.dec(r['src']), 'plain': chars.dec(r['plain'])})
    c.extra['excluded_by_statement'] = nexcl
    if not replay:
        from checks import scan, total
        rng = random.Random(seed)
        extra = [chars.enc(''.join(rng.choice(total.VOCAB) for _ in range(rng.randint(1, 12)))) for _ in range(3000 if q else 30000)]
        scan.phase(c, tier, [r['src'] for r in ok[:20000]] + extra)
    for r in ok[:3] + ok[-2:]:
        c.sample({'source': chars.dec(r['src']), 'plain': chars.dec(r['plain']), 'map': r['map'], 'verdict': verdicts[r['id']]['c06']})
    c.assumptions = ['the table of Special.tla is the documented one (README "Filter actions" / statement of C06)',
                     'this is the "one pure function" case: TLA+ contributes the declarative longest-match semantics and the complete enumeration, nothing deeper']
    return c.finish()
