"""Step traces of the line-removal pass (hook YALAFI_VERIF=1): every call of Parser.remove_pure_action_lines made while
filtering TLC-generated documents is recorded (input and output token lists) and validated by LinesTrace.tla against the
declarative rule of Lines.tla (a line holding only white space and at least one action token is deleted with its line break;
every other character keeps its text and position; language tokens survive).  LinesMachine.tla relates that rule to the
work-stack machine the code implements (TLC refinement check over all small token lists)."""
import json
import os
import tempfile

from harness import chars, core, drivers, tlc


def drive(case):
    os.environ['YALAFI_VERIF'] = '1'
    fd, path = tempfile.mkstemp(prefix='yv_tr_')
    os.close(fd)
    os.environ['YALAFI_VERIF_TRACE'] = path
    try:
        import yalafi._verif as hv
        hv.ON = True
        r = drivers.call_tex2txt(chars.dec(case['src']), case.get('opts') or {}, case.get('ml', False))
        recs = []
        for k, line in enumerate(open(path, encoding='utf-8')):
            ev = json.loads(line)
            if ev.get('event') != 'rpal':
                continue
            conv = lambda ts: [{'k': t['k'], 'p': t['p'], 't': chars.enc(t['t']), 'f': t['f']} for t in ts]
            recs.append({'id': '%s.%d' % (case['id'], k), 'inp': conv(ev['inp']), 'out': conv(ev['out']), 'src': case['src'], 'doc': case['doc']})
        return recs
    finally:
        os.unlink(path)
        os.environ.pop('YALAFI_VERIF_TRACE', None)
        os.environ['YALAFI_VERIF'] = '0'


def phase(c, tier, key, behaviours, opts):
    """key: 'text' (C05) or 'positions' (C02)"""
    q = tier == 'quick'
    # the machine the code implements refines the declarative rule (all token lists up to the bound)
    cfg = tlc.cfg_text(constants={'MaxToks': 4 if q else 5, 'OldShift': False}, invariants=['Refines', 'RefinesPos'])
    c.tlc('LinesMachine.tla refines Lines.tla: all token lists of <= %d tokens over 12 token shapes' % (4 if q else 5), 'LinesMachine', cfg, timeout=1800)
    if key == 'positions':
        # the design before fix a1434e9 (a shortened token with fixed position is advanced): TLC shows the counterexample
        r = c.tlc('LinesMachine.tla with OldShift: counterexample to RefinesPos expected', 'LinesMachine',
                  tlc.cfg_text(constants={'MaxToks': 3, 'OldShift': True}, invariants=['RefinesPos']), allow_violation=True, timeout=600)
        c.extra['old_shift_design_refuted_by_TLC'] = 'RefinesPos' in r.violated
    docs = behaviours[:]
    c.rng.shuffle(docs)
    docs = docs[:4000 if q else 40000]
    cases = [{'id': 'st%d' % i, 'doc': b['doc'], 'src': b['src'], 'opts': opts} for i, b in enumerate(docs)]
    recs = []
    for lst in c.drive(cases, drive, chunksize=16):
        recs += lst
    recs = [r for r in recs if any(t['k'] == 'ActionToken' for t in r['inp'])]
    verdicts = c.validate('LinesTrace: recorded calls of remove_pure_action_lines', 'LinesTrace', recs,
                          project=lambda r: {k: r[k] for k in ('id', 'inp', 'out')})
    nbad = 0
    for r in recs:
        v = verdicts[r['id']]['lines']
        if v == key:
            nbad += 1
            if nbad <= 25:
                c.violation(r, 'line-removal-step:' + ('a-line-wrongly-removed-or-kept' if key == 'text' else 'a-surviving-character-changed-its-position'),
                            extra={'text': chars.dec(r['src'])})
        elif v != 'ok':
            c.drift.append({'source': chars.dec(r['src']), 'what': 'line-removal step trace: ' + v})
    c.extra['step_trace_records'] = len(recs)
    if recs:
        r = recs[len(recs) // 2]
        c.sample({'step_trace_of': chars.dec(r['src']), 'input_tokens': [(t['k'], t['p'], ''.join(t['t'])) for t in r['inp']][:12],
                  'output_tokens': [(t['k'], t['p'], ''.join(t['t'])) for t in r['out']][:12], 'verdict': verdicts[r['id']]['lines']})
