#!/venv/bin/python
"""development aid: ./tools/pairsweep.py NUM [optsjson] [symfile]  - focused simulation (GenPair.tla) over the union of the flow alphabets,
run the real filter, judge with Obs.tla, summarise disagreements per clause with the smallest example"""
import sys, json, collections, os
sys.path.insert(0, os.path.dirname(os.path.dirname(os.path.abspath(__file__))))
from harness import tlc, core, drivers, chars
from checks import flow
num = int(sys.argv[1])
OPT = dict(flow.OPTS); OPT.update(json.loads(sys.argv[2]) if len(sys.argv) > 2 else {})
syms = set(flow.PROSE + flow.COPY + flow.GENER + flow.LAYOUT2 + flow.INLALL + flow.DSPALL + flow.MALL + flow.CITEO + flow.ARGEND + flow.LINES + flow.VERBL)
if len(sys.argv) > 3:
    syms = set(sys.argv[3].split(','))
base = {'a', 'sp', 'nl', 'cb', 'ob', 'b'}
seed = int(os.environ.get('SEED', '1'))
c = core.Check('TSTP', 'quick', seed)
flow.make_files()
cfg = tlc.cfg_text(spec='PSpec', constants={'Sym': syms, 'MaxSym': 9, 'MaxDepth': 3, 'Free': False, 'Mode': 'normal', 'Base': base, 'MaxSpecial': int(os.environ.get('NSPECIAL', '2'))}, invariants=['SrcIsConc', 'AnchorsInSrc', 'PDump'])
r = c.tlc('pair sweep', 'GenPair', cfg, simulate=num, depth=12, seed=seed, workers=8)
seen = {}
for b in r.json('@@'):
    seen.setdefault(tuple(b['doc']), b)
beh = list(seen.values()); print('docs', len(beh))
cases = [{'id': i, 'doc': b['doc'], 'src': b['src'], 'opts': OPT} for i, b in enumerate(beh)]
recs = c.drive(cases, drivers.drive_filter)
bad = [x for x in recs if x['outcome'] != 'returned']; print('not returned', len(bad), [(x['doc'], x['outcome']) for x in bad[:3]])
V = c.validate('obs', 'Obs', [x for x in recs if x['outcome'] == 'returned'], project=lambda x: dict({k: x[k] for k in ('id', 'doc', 'src', 'plain', 'map')}, ndef=0, prefix=[], lang=[], seqs=bool(OPT.get('seqs')), unkn=False, extr=False, diags=x.get('diags', [])))
cnt = collections.Counter(); ex = {}
for x in recs:
    v = V.get(x['id'])
    if not v: continue
    if v.get('bind') != 'ok':
        cnt['bind:' + v['bind']] += 1; continue
    for k in ('c01', 'c02', 'c03', 'c04', 'c05', 'c10', 'c11', 'c08'):
        if v.get(k, 'ok') not in ('ok', 'skipped'):
            key = k + ':' + v[k].split('@')[0].split('-at-')[0]
            sp = tuple(sorted(set(x['doc']) - base))
            cnt[key] += 1
            if key not in ex or len(x['src']) < len(ex[key][0]['src']): ex[key] = (x, v[k])
print(cnt)
for k, (x, m) in ex.items(): print(k, m, '\n   doc=%s\n   src=%r\n   plain=%r\n   map=%s' % (' '.join(x['doc']), chars.dec(x['src']), chars.dec(x['plain']), x['map']))
import shutil; shutil.rmtree(c.outdir, ignore_errors=True)
