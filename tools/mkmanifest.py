#!/usr/bin/env python3
"""regenerates MANIFEST.json from the table below (kept valid at all times)"""
import json, os, subprocess
HERE = os.path.dirname(os.path.dirname(os.path.abspath(__file__)))
props = [json.loads(l) for l in open(os.path.join(HERE, 'properties.jsonl'))]
FLOW = ('Gen.tla enumerates (TLC, exhaustive at small bounds; -simulate beyond) well-formed documents over the catalogue of Doc.tla; '
        'each is run through the real tex2txt; Obs.tla (TLC) recomputes the reference meaning of the document and evaluates the Level A '
        'predicate of Align.tla on the real observation. ')
CLAIMED = {
 'C01': ('model_checking', 'GenFree.tla/Gen.tla + ObsFree.tla', 'TLC enumerates every snippet sequence over a vocabulary of all token kinds and handler classes (closed under truncation and deletion) and simulates longer ones; every input is run through the real filter under a covering array of option profiles (incl. --defs, --repl, multi-language, --unkn, CLI --nums) and ObsFree.tla judges length and range of every returned position list. Small-scope exhaustive + random, not a proof.', '6/C01',
         'assumes the vocabulary covers the token kinds and handler classes; per-case time limit'),
 'C02': ('model_checking', 'Gen.tla + Doc.tla/Align.tla via Obs.tla', FLOW + 'C02: every copied character (and replaced special sequence) of the expectation appears with exactly its own offset; copied white space lies between its neighbours.', '6/C02', 'reference meaning of the catalogue is my reading of README/property statement; fixed options'),
 'C03': ('model_checking', 'Gen.tla + Doc.tla/Align.tla via Obs.tla', FLOW + 'C03: expected characters present once and in order per flow, detached flows after the main flow, nothing else except text of the class of a generating construct at that place; hidden vocabulary and markup characters absent.', '6/C03', 'as C02'),
 'C04': ('model_checking', 'Gen.tla + Doc.tla/Align.tla via Obs.tla', FLOW + 'C04: every generated character (placeholder, label, heading dot, citation, paragraph frames, flow separators) maps into the span of the construct the reference names at that place.', '6/C04', 'as C02'),
 'C05': ('model_checking', 'Gen.tla + Doc.tla/Align.tla via Obs.tla', FLOW + 'C05: separator class (glued / blank / paragraph break) between adjacent words, computed by TeX\'s rules in Doc!Seps, for all layouts of blanks, line breaks, comments and vanishing constructs up to the bound.', '6/C05', 'as C02'),
 'C06': ('model_checking', 'Special.tla, GenStr.tla, ObsStr.tla', 'Special.tla gives the documented table and a declarative longest-match rewriting RefRewrite; GenStr.tla (TLC) enumerates ALL strings over the 19-symbol alphabet of the statement up to the bound and over the 6-symbol dash/quote/line-break alphabet up to a larger bound, checking the reference itself (identity on prose, monotone in-range positions); the real filter rewrites every string; ObsStr.tla compares text and position list with RefRewrite. Exhaustive at the bound, random beyond. This is the one-pure-function case: TLA+ contributes the declarative semantics and the complete enumeration.', '6/C06', 'the table in Special.tla is the documented one; strings with a special sequence on an otherwise blank line are excluded as in the statement'),
 'C08': ('model_checking', 'Doc.tla (fault symbols) via Gen.tla/Obs.tla (C08)', FLOW + 'C08: well-formed documents must produce neither diagnostic nor mark; documents with exactly one injected fault (12 kinds: open inline/display maths before a paragraph end or at the end of the text, open equation environment, open mandatory / optional argument, bad \\verb, missing \\end{verbatim}, unclosed skip comment, accent on a non-letter, unreadable \\LTinput) at every place the generator can put it must print a first diagnostic with the line/column of the problem, contain the complete mark whose first character maps to that place, and keep every copied character after the faulty construct.', '6/C08', 'one fault per document; as C02'),
 'C09': ('model_checking', 'Doc.tla (ExpandBody) via Gen.tla/Obs.tla', FLOW + 'C09: Doc!ExpandBody is TeX substitution for a catalogue of 8 definition shapes (0-2 parameters, optional default, argument used twice / never, nested call, \\def, \\renewcommand, use before definition, single-token argument); every document whose definitions lead the text is run three times (definitions in the document, via --defs, via a file read by \\LTinput) and Obs.tla judges each against the same expectation shifted by the constant offset.', '6/C09', 'definition shapes are a finite catalogue; as C02'),
 'C10': ('model_checking', 'Maths.tla/Doc.tla via Gen.tla/Obs.tla (C10Walk)', FLOW + 'C10: for every inline formula (bodies over letters, operators, fractions, sub-scripts, unknown maths macros, braces, maths space, punctuation; in text, arguments, items, footnotes, headings; languages en/de/ru) the characters mapping into the formula are exactly one placeholder of the inline collection of the language plus its closing punctuation mark, with a blank where the formula starts/ends with maths space, and successive formulas carry cyclically successive placeholders.', '6/C10', 'as C02; language switches inside a document belong to C12'),
 'C11': ('model_checking', 'Maths.tla (RefEq) via Gen.tla/Obs.tla (C11Walk)', FLOW + 'C11: Maths!RefEq is the documented rewriting scheme (rows x sections x parts, operator words, text parts copied with exact positions, punctuation kept, rotation points) with placeholders numbered relative to the rotation state; Obs.tla matches the text of every displayed equation (align, equation, \\[ \\], $$ $$; en/de/ru; simple mode on/off) piece by piece against it.', '6/C11', 'as C02; equations with a row that renders nothing are excluded (that is a blank line for the line-removal pass)'),
 'C12': ('model_checking', 'Doc.tla (language stack, insertions) via Gen.tla/ObsML.tla', 'Doc.tla labels every copied character with the language in force (babel option and \\selectlanguage replace the top of a stack, \\foreignlanguage and the otherlanguage environments push for their extent, nesting, footnotes) and records every insertion (span, number of words); Gen.tla (TLC) enumerates documents with these commands; the real tex2txt runs each in multi-language mode (main language in {en-GB, de-DE, none}, threshold 0..5) and in single-language mode; ObsML.tla demands: every word character in exactly one part with its exact position and the right label; a short single-language insertion inside a sentence = one language-change placeholder in the same part, a longer one ends the part; the parts together hold exactly what the single-language run holds.', '6/C12', 'placeholder clause only for insertions with text of the surrounding language on both sides; \\selectlanguage inside footnotes not generated'),
 'C13': ('model_checking', 'Replace.tla, GenRepl.tla, ObsRepl.tla', 'Replace.tla is the statement as a left-to-right machine (rule parsing, phrase matching with word boundaries and separators without blank line, position bookkeeping); GenRepl.tla (TLC) enumerates texts x position-list patterns (also non-monotonic) x 12 rule lists and checks the clauses of the statement on the specification itself; the real utils.replace_phrases (and tex2txt with repl, single- and multi-language) runs every case; ObsRepl.tla demands equality with the specification.', '6/C13', 'regular-expression semantics modelled only for the patterns replace_phrases builds'),
 'C19': ('model_checking', 'Doc.tla (unk) via Gen.tla/Obs.tla (C19)', FLOW + 'C19: the reference records undeclared names in order of first use (unknown macros and environments, the listed-but-unknown \\xfoo, user macros used before their definition), not those in maths, comments, skipped regions; the output of the real filter with unkn (two package selections) must be exactly that list, one per line.', '6/C19', 'package selections limited to the fixed set and *; as C02'),
 'C20': ('model_checking', 'Checks.tla, GenChk.tla, ObsChk.tla', 'Checks.tla defines declaratively the isolated letters not covered by an accepted pattern, the offending equation placeholders and the context excerpt; GenChk.tla (TLC) enumerates plain texts over the alphabet of the statement and checks the definitions; the real yalafi.shell.checks functions run on each text with 8 accept lists x 6 modes; ObsChk.tla compares the messages (offset, length, context) with the definitions.', '6/C20', 'regular-expression semantics (\\b, \\w, \\s, alternation order) modelled for the patterns checks.py builds; a missing equation message is DRIFT, not a violation'),
 'C07': ('model_checking', 'GenFree.tla/Gen.tla + ObsFree.tla', 'as C01; ObsFree.tla judges the outcome of every real run (returned / exception / exit / hang), excluding only self-recursive definitions as the statement does.', '6/C07', 'hang = no result within the per-case time limit'),
}
checks = []
for p in props:
    if p['id'] in CLAIMED:
        lvl, tech, text, ref, note = CLAIMED[p['id']]
        checks.append({
            'property_id': p['id'],
            'quick_cmd': './run.py %s --tier quick' % p['id'],
            'thorough_cmd': './run.py %s --tier thorough' % p['id'],
            'evidence_file': 'evidence/%s.json' % p['id'],
            'replay_cmd_template': './run.py %s --replay {path}' % p['id'],
            'engine': 'tlc',
            'level_claimed': {'category': lvl, 'text': text, 'design_ref': 'DESIGN.md section ' + ref},
            'level_note': note,
            'technique': 'explicit TLA+ specification (' + tech + '), TLC model checking + trace validation of real executions',
        })
hooks = subprocess.run(['git', '-C', '/repo', 'log', '--format=%h %s', '005d6e3..HEAD'], stdout=subprocess.PIPE).stdout.decode().split('\n')
hook_commits = [l.split()[0] for l in hooks if l and not l.split(' ', 1)[1].startswith('fix:')]
m = {
 'version': 1,
 'setup_cmd': './setup.sh',
 'hooks': {'guard': 'YALAFI_VERIF', 'enable': 'env YALAFI_VERIF=1 YALAFI_VERIF_TRACE=<file> (pure Python, no build step; checks import /repo\'s working tree directly)',
           'baseline_off_cmd': 'cd /repo && env -u YALAFI_VERIF /venv/bin/python -m pytest -ra -q -p no:cacheprovider --timeout=900',
           'source_commits': hook_commits, 'add_only': True},
 'engines': [{'name': 'tlc', 'path': 'harness/tlc.py', 'serves_properties': sorted(CLAIMED), 'kind_free_text': 'TLC 1.8 (tla2tools.jar) on the specifications in spec/, driven by run.py'}],
 'checks': checks,
 'not_applicable': [{'property_id': p['id'], 'reason': 'check under construction in this round (not a claim of inapplicability)'} for p in props if p['id'] not in CLAIMED],
 'notes': 'see DESIGN.md; known findings and fix commits are listed in known_findings.json',
}
json.dump(m, open(os.path.join(HERE, 'MANIFEST.json'), 'w'), indent=1)
print('checks:', len(checks), 'n/a:', len(m['not_applicable']))
