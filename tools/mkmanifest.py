#!/usr/bin/env python3
"""regenerates MANIFEST.json from the table below (kept valid at all times)"""
import json, os, subprocess
HERE = os.path.dirname(os.path.dirname(os.path.abspath(__file__)))
props = [json.loads(l) for l in open(os.path.join(HERE, 'properties.jsonl'))]
FLOW = ('Gen.tla enumerates (TLC, exhaustive at small bounds; -simulate beyond) well-formed documents over the catalogue of Doc.tla; '
        'each is run through the real tex2txt; Obs.tla (TLC) recomputes the reference meaning of the document and evaluates the Level A '
        'predicate of Align.tla on the real observation. ')
CLAIMED = {
 'C01': ('model_checking', 'GenFree.tla/Gen.tla + ObsFree.tla', 'TLC enumerates every snippet sequence over a vocabulary of all token kinds and handler classes (closed under truncation and deletion) and simulates longer ones; every input is run through the real filter under a covering array of option profiles (incl. --defs, --repl, multi-language, --unkn, CLI --nums) and ObsFree.tla judges length and range of every returned position list. Small-scope exhaustive + random, not a proof.', '6/C01',
         'assumes the vocabulary covers the token kinds and handler classes; per-case time limit'),
 'C02': ('model_checking', 'Gen.tla + Doc.tla/Align.tla via Obs.tla', FLOW + 'C02: every copied character (and replaced special sequence) of the expectation appears with exactly its own offset; copied white space lies between its neighbours.', '6/C02', 'reference meaning of the catalogue is my reading of README/property statement; fixed options'),
 'C03': ('model_checking', 'Gen.tla + Doc.tla/Align.tla via Obs.tla', FLOW + 'C03: expected characters present once and in order per flow, detached flows after the main flow, nothing else except text of the class of a generating construct at that place; hidden vocabulary and markup characters absent.', '6/C03', 'as C02'),
 'C04': ('model_checking', 'Gen.tla + Doc.tla/Align.tla via Obs.tla', FLOW + 'C04: every generated character (placeholder, label, heading dot, citation, paragraph frames, flow separators) maps into the span of the construct the reference names at that place.', '6/C04', 'as C02'),
 'C05': ('model_checking', 'Gen.tla + Doc.tla/Align.tla via Obs.tla', FLOW + 'C05: separator class (glued / blank / paragraph break) between adjacent words, computed by TeX\'s rules in Doc!Seps, for all layouts of blanks, line breaks, comments and vanishing constructs up to the bound.', '6/C05', 'as C02'),
 'C07': ('model_checking', 'GenFree.tla/Gen.tla + ObsFree.tla', 'as C01; ObsFree.tla judges the outcome of every real run (returned / exception / exit / hang), excluding only self-recursive definitions as the statement does.', '6/C07', 'hang = no result within the per-case time limit'),
}
checks = []
for p in props:
    if p['id'] in CLAIMED:
        lvl, tech, text, ref, note = CLAIMED[p['id']]
        checks.append({
            'property_id': p['id'],
            'quick_cmd': './run.py %s --tier quick' % p['id'],
            'thorough_cmd': './run.py %s --tier thorough' % p['id'],
            'evidence_file': 'evidence/%s.json' % p['id'],
            'replay_cmd_template': './run.py %s --replay {path}' % p['id'],
            'engine': 'tlc',
            'level_claimed': {'category': lvl, 'text': text, 'design_ref': 'DESIGN.md section ' + ref},
            'level_note': note,
            'technique': 'explicit TLA+ specification (' + tech + '), TLC model checking + trace validation of real executions',
        })
hooks = subprocess.run(['git', '-C', '/repo', 'log', '--format=%h %s', '005d6e3..HEAD'], stdout=subprocess.PIPE).stdout.decode().split('\n')
hook_commits = [l.split()[0] for l in hooks if l and not l.split(' ', 1)[1].startswith('fix:')]
m = {
 'version': 1,
 'setup_cmd': './setup.sh',
 'hooks': {'guard': 'YALAFI_VERIF', 'enable': 'env YALAFI_VERIF=1 YALAFI_VERIF_TRACE=<file> (pure Python, no build step; checks import /repo\'s working tree directly)',
           'baseline_off_cmd': 'cd /repo && env -u YALAFI_VERIF /venv/bin/python -m pytest -ra -q -p no:cacheprovider --timeout=900',
           'source_commits': hook_commits, 'add_only': True},
 'engines': [{'name': 'tlc', 'path': 'harness/tlc.py', 'serves_properties': sorted(CLAIMED), 'kind_free_text': 'TLC 1.8 (tla2tools.jar) on the specifications in spec/, driven by run.py'}],
 'checks': checks,
 'not_applicable': [{'property_id': p['id'], 'reason': 'check under construction in this round (not a claim of inapplicability)'} for p in props if p['id'] not in CLAIMED],
 'notes': 'see DESIGN.md; known findings and fix commits are listed in known_findings.json',
}
json.dump(m, open(os.path.join(HERE, 'MANIFEST.json'), 'w'), indent=1)
print('checks:', len(checks), 'n/a:', len(m['not_applicable']))
