#!/bin/sh
# applies every seeded change of /verif/seeded to /repo in turn, runs the quick check of its property, undoes it
cd "$(dirname "$0")/.." || exit 2
for d in seeded/C*; do
  s=$(basename $d); p=$(echo $s | cut -c1-3)
  python3 tools/seedtest.py detect $d quick $p > /tmp/yv_seed.json 2>/dev/null
  python3 -c "
import json; d=json.load(open('/tmp/yv_seed.json')); print(d['seed'], 'DETECTED' if d['detected'] else 'MISSED', {k:(v['exit'],v['violations'],v['wall_s']) for k,v in d['checks'].items()}, d.get('error',''))"
done
rm -f /tmp/yv_seed.json
