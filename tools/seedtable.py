#!/usr/bin/env python3
"""prints the markdown table of seeded changes (DESIGN.md section 11) from /verif/seeded/*/meta.json and detect_quick.json"""
import glob, json, os, re, sys
rows = []
for d in sorted(glob.glob(os.path.join(os.path.dirname(os.path.dirname(os.path.abspath(__file__))), 'seeded', 'C*'))):
    sid = os.path.basename(d)
    if len(sys.argv) > 1 and not re.search(sys.argv[1], sid):
        continue
    m = json.load(open(os.path.join(d, 'meta.json')))
    need = (m.get('needs_to_manifest') or '').replace('\n', ' ').replace('|', '\\|')
    need = need if len(need) < 170 else need[:167] + '…'
    rep = '—'
    p = os.path.join(d, 'detect_quick.json')
    if os.path.exists(p):
        dj = json.load(open(p))
        for k, v in dj.get('checks', {}).items():
            if v['exit'] == 1 and v['first']:
                mm = re.search(r'clause=(.*)$', v['first'][0])
                cl = mm.group(1) if mm else ''
                cl = re.sub(r'\d+', 'N', cl)[:70]
                rep = '%s %s (%d)' % (k, cl.replace('|', '\\|'), v['violations'])
            elif v['exit'] != 1:
                rep = '%s exit %s' % (k, v['exit'])
    rows.append('| %s | %s | %s |' % (sid, need, rep))
print('| seed | what it needs to manifest | reported as (violations listed) |\n|---|---|---|')
print('\n'.join(rows))
