#!/bin/sh
# runs every registered check once (tier $1, default quick) and prints one summary line per property
cd "$(dirname "$0")/.." || exit 2
tier=${1:-quick}
for p in C01 C02 C03 C04 C05 C06 C07 C08 C09 C10 C11 C12 C13 C14 C15 C16 C17 C18 C19 C20; do
  ./run.py $p --tier $tier > /tmp/yv_runall_$p.log 2>&1
  echo "exit=$? $(grep -E "^$p $tier" /tmp/yv_runall_$p.log | tail -1)"
  grep -E "^(VIOLATION|KNOWN-FINDING|MACHINERY)" /tmp/yv_runall_$p.log | head -3
  rm -f /tmp/yv_runall_$p.log
done
