#!/venv/bin/python
"""Demonstration of the binding: real observations are corrupted in one field (or one event is dropped) and the trace
specifications must reject them.  Prints one line per experiment and writes selftest_result.json (not a property check)."""
import copy
import json
import os
import sys

HERE = os.path.dirname(os.path.dirname(os.path.abspath(__file__)))
sys.path.insert(0, HERE)
from harness import chars, core, drivers, tlc  # noqa: E402
from checks import flow, lines, scan, shell14  # noqa: E402


def main():
    flow.make_files()
    c = core.Check('selftest', 'quick', 0)
    res = []
    # --- observations of tex2txt judged by Obs.tla
    cfg = tlc.cfg_text(constants={'Sym': {'a', 'b', 'sp', 'nl', 'lb', 'uk', 'fn', 'cb', 'im', 'sec', 'cm'}, 'MaxSym': 4, 'MaxDepth': 2, 'Free': False, 'Mode': 'normal'},
                       invariants=['Dump'])
    beh = [b for b in c.tlc('documents', 'Gen', cfg).json('@@') if 'a' in b['doc'] or 'b' in b['doc']][:400]
    recs = c.drive([{'id': i, 'doc': b['doc'], 'src': b['src'], 'opts': flow.OPTS} for i, b in enumerate(beh)], drivers.drive_filter)
    recs = [r for r in recs if r['outcome'] == 'returned' and len(r['plain']) >= 2]

    def judge(rs, keys):
        v = c.validate('selftest', 'Obs', rs, project=flow.project)
        return sum(1 for r in rs if any(v[r['id']][k] not in ('ok', 'skipped') for k in keys)), len(rs)

    base = judge(recs, ('c01', 'c02', 'c03', 'c04', 'c05'))
    res.append(('Obs: unmodified observations rejected', base[0], base[1], base[0] == 0))
    m1 = []
    for r in recs:
        r2 = copy.deepcopy(r)
        k = next(i for i, ch in enumerate(r2['plain']) if ch in ('a', 'b'))
        r2['map'][k] += 1
        m1.append(r2)
    x = judge(m1, ('c01', 'c02', 'c04'))
    res.append(('Obs: position of one copied letter increased by 1 -> rejected', x[0], x[1], x[0] == x[1]))
    m2 = []
    for r in recs:
        r2 = copy.deepcopy(r)
        k = next(i for i, ch in enumerate(r2['plain']) if ch in ('a', 'b'))
        del r2['plain'][k]
        del r2['map'][k]
        m2.append(r2)
    x = judge(m2, ('c03',))
    res.append(('Obs: one copied letter removed from the output -> rejected', x[0], x[1], x[0] == x[1]))
    m3 = []
    for r in recs:
        r2 = copy.deepcopy(r)
        r2['map'] = r2['map'][:-1]
        m3.append(r2)
    x = judge(m3, ('c01',))
    res.append(('Obs: position list one entry short -> rejected', x[0], x[1], x[0] == x[1]))
    m4 = []
    for r in recs:
        r2 = copy.deepcopy(r)
        r2['src'] = r2['src'] + ['a']
        m4.append(r2)
    try:
        c.validate('selftest', 'Obs', m4[:20], project=flow.project)
        res.append(('Obs: source text differs from the document -> binding refused', 0, 20, False))
    except core.Machinery:
        res.append(('Obs: source text differs from the document -> binding refused', 20, 20, True))
    # --- step traces (hook)
    tr = []
    for lst in c.drive([{'id': 's%d' % i, 'doc': b['doc'], 'src': b['src'], 'opts': flow.OPTS} for i, b in enumerate(beh[:200])], lines.drive):
        tr += lst
    tr = [t for t in tr if any(x['k'] != 'ActionToken' and x['t'] and not x['f'] for x in t['out'])]
    v = c.validate('selftest', 'LinesTrace', tr, project=lambda r: {k: r[k] for k in ('id', 'inp', 'out')})
    res.append(('LinesTrace: unmodified step traces rejected', sum(1 for t in tr if v[t['id']]['lines'] != 'ok'), len(tr), all(v[t['id']]['lines'] == 'ok' for t in tr)))
    t2 = copy.deepcopy(tr)
    for t in t2:
        k = next(i for i, x in enumerate(t['out']) if x['k'] != 'ActionToken' and x['t'] and not x['f'])
        t['out'][k]['p'] += 1
    v = c.validate('selftest', 'LinesTrace', t2, project=lambda r: {k: r[k] for k in ('id', 'inp', 'out')})
    n = sum(1 for t in t2 if v[t['id']]['lines'] != 'ok')
    res.append(('LinesTrace: position of one output token increased by 1 -> rejected', n, len(t2), n == len(t2)))
    t3 = copy.deepcopy(tr)
    for t in t3:
        k = next(i for i, x in enumerate(t['out']) if x['k'] != 'ActionToken' and x['t'] and not x['f'])
        del t['out'][k]
    v = c.validate('selftest', 'LinesTrace', t3, project=lambda r: {k: r[k] for k in ('id', 'inp', 'out')})
    n = sum(1 for t in t3 if v[t['id']]['lines'] != 'ok')
    res.append(('LinesTrace: one output token dropped -> rejected', n, len(t3), n == len(t3)))
    # --- scanner traces
    sc = c.drive([{'id': 'c%d' % i, 'src': b['src']} for i, b in enumerate(beh[:200])], scan.drive)
    sc = [s for s in sc if len(s['toks']) >= 2]
    s2 = copy.deepcopy(sc)
    for s in s2:
        s['toks'][1]['p'] += 1
    inv = ['SliceEq', 'Tile', 'TileEnd', 'Longest', 'CommentKeepsBlankLine']
    v = c.validate('selftest', 'ScanTrace', s2, spec='TSpec', invariants=inv, constants={'MaxSym': 0, 'NAlpha': 1})
    n = sum(1 for s in s2 if v[s['id']]['scan'] != 'ok')
    res.append(('ScanTrace: offset of the second token increased by 1 -> rejected', n, len(s2), n == len(s2)))
    s3 = copy.deepcopy(sc)
    for s in s3:
        del s['toks'][-1]
    v = c.validate('selftest', 'ScanTrace', s3, spec='TSpec', invariants=inv, constants={'MaxSym': 0, 'NAlpha': 1})
    n = sum(1 for s in s3 if v[s['id']]['scan'] != 'ok')
    res.append(('ScanTrace: last token event dropped -> rejected', n, len(s3), n == len(s3)))
    # --- aggregation
    cfg = tlc.cfg_text(constants=dict(N=3, MaxParts=2, MaxLen=2, MaxMatches=1, Emit=True), invariants=['Dump'])
    scen = c.tlc('scenarios', 'Aggregate', cfg).json('@@')
    ag = c.drive([{'id': 'g%d' % i, 'n': 3, 'parts': b['parts'], 'model': {'reported': b['reported'], 'cm': b['cm'], 'plen': b['plen']}} for i, b in enumerate(scen[:300])], shell14.drive_agg)
    ag = [a for a in ag if a['reported']]
    a2 = copy.deepcopy(ag)
    for a in a2:
        a['reported'][0]['offset'] += 1
    v = c.validate('selftest', 'AggTrace', a2, project=lambda x: {k: x[k] for k in ('id', 'n', 'parts', 'reported', 'cm', 'plen', 'model')})
    n = sum(1 for a in a2 if v[a['id']]['c14'] != 'ok')
    res.append(('AggTrace: reported offset of one match increased by 1 -> rejected', n, len(a2), n == len(a2)))
    ok = all(r[3] for r in res)
    for r in res:
        print('%-80s %5d / %-5d %s' % (r[0], r[1], r[2], 'as expected' if r[3] else 'UNEXPECTED'))
    json.dump({'experiments': [{'what': r[0], 'rejected': r[1], 'of': r[2], 'as_expected': r[3]} for r in res], 'all_as_expected': ok},
              open(os.path.join(HERE, 'selftest_result.json'), 'w'), indent=1)
    return 0 if ok else 2


if __name__ == '__main__':
    sys.exit(main())
