#!/usr/bin/env python3
"""Seeded-defect bookkeeping.

  seedtest.py confirm <dir>          in a scratch worktree of /repo HEAD: patch applies, demo FAILS with it and
                                     PASSES without, the repository's test suite passes with it  (writes <dir>/confirm.json)
  seedtest.py detect <dir> [tier]    apply the patch to /repo, run the property's check, undo the patch
                                     (writes <dir>/detect.json)
Seeds are never committed to /repo."""
import json
import os
import shutil
import subprocess
import sys
import time

REPO = '/repo'
VERIF = os.path.dirname(os.path.dirname(os.path.abspath(__file__)))


def sh(cmd, cwd=None, timeout=1800, env=None):
    p = subprocess.run(cmd, shell=True, cwd=cwd, stdout=subprocess.PIPE, stderr=subprocess.STDOUT, timeout=timeout, env=env)
    return p.returncode, p.stdout.decode('utf-8', 'replace')


def confirm(d):
    d = os.path.abspath(d)
    name = os.path.basename(d)
    wt = '/tmp/wtc_' + name
    sh('git -C %s worktree remove --force %s' % (REPO, wt))
    rc, out = sh('git -C %s worktree add --detach %s HEAD' % (REPO, wt))
    res = {'seed': name, 'head': sh('git -C %s rev-parse --short HEAD' % REPO)[1].strip()}
    try:
        env = dict(os.environ, PYTHONPATH=wt)
        rc0, o0 = sh('/venv/bin/python %s/demo.py' % d, cwd=wt, env=env, timeout=900)
        res['demo_without'] = rc0
        rc, out = sh('git apply %s/patch.diff' % d, cwd=wt)
        res['applies'] = rc == 0
        if rc != 0:
            res['apply_output'] = out[-500:]
            return res
        rc1, o1 = sh('/venv/bin/python %s/demo.py' % d, cwd=wt, env=env, timeout=900)
        res['demo_with'] = rc1
        res['demo_with_tail'] = o1[-300:]
        rc2, o2 = sh("unshare -rn sh -c 'ip link set lo up; /venv/bin/python -m pytest -q -p no:cacheprovider --timeout=900 2>&1 | tail -3'", cwd=wt, env=env, timeout=1800)
        res['suite_tail'] = o2[-200:]
        res['suite_pass'] = ' passed' in o2 and 'failed' not in o2 and 'error' not in o2.lower()
        res['confirmed'] = bool(rc0 == 0 and rc1 != 0 and res['suite_pass'])
    finally:
        sh('git -C %s worktree remove --force %s' % (REPO, wt))
        shutil.rmtree(wt, ignore_errors=True)
        json.dump(res, open(os.path.join(d, 'confirm.json'), 'w'), indent=1)
    return res


def detect(d, tier='quick', props=None):
    d = os.path.abspath(d)
    meta = json.load(open(os.path.join(d, 'meta.json')))
    props = props or [meta['property']]
    rc, out = sh('git -C %s status --porcelain --untracked-files=no' % REPO)
    if out.strip():
        print('refusing: /repo has uncommitted changes'); sys.exit(2)
    rc, out = sh('git -C %s apply %s/patch.diff' % (REPO, d))
    res = {'seed': os.path.basename(d), 'tier': tier, 'checks': {}}
    if rc != 0:
        res['error'] = 'patch does not apply: ' + out[-300:]
    else:
        try:
            for p in props:
                t = time.time()
                rc, out = sh('./run.py %s --tier %s' % (p, tier), cwd=VERIF, timeout=7200)
                viol = [l for l in out.split('\n') if l.startswith('VIOLATION')]
                res['checks'][p] = {'exit': rc, 'violations': len(viol), 'first': viol[:2], 'wall_s': round(time.time() - t), 'tail': out[-300:] if rc not in (0, 1) else ''}
        finally:
            sh('git -C %s checkout -- .' % REPO)
    res['detected'] = any(v['exit'] == 1 for v in res['checks'].values())
    json.dump(res, open(os.path.join(d, 'detect_%s.json' % tier), 'w'), indent=1)
    return res


if __name__ == '__main__':
    mode, d = sys.argv[1], sys.argv[2]
    if mode == 'confirm':
        print(json.dumps(confirm(d)))
    else:
        tier = sys.argv[3] if len(sys.argv) > 3 else 'quick'
        props = sys.argv[4].split(',') if len(sys.argv) > 4 else None
        print(json.dumps(detect(d, tier, props)))
