#!/venv/bin/python
"""development aid: ./tools/explore.py SYMS N [pack]  - generate documents, run the real filter, judge with Obs.tla, summarise disagreements"""
import sys, json, collections, os
sys.path.insert(0, os.path.dirname(os.path.dirname(os.path.abspath(__file__))))
from harness import tlc, core, drivers, chars
syms=set(sys.argv[1].split(',')); n=int(sys.argv[2]); pack=sys.argv[3] if len(sys.argv)>3 else 'xcolor,listings,amsmath'
c=core.Check('TST','quick',0)
MODE='extr' if len(sys.argv)>4 and 'extr' in sys.argv[4] else 'normal'
OPT=dict(pack=pack); OPT.update(json.loads(sys.argv[4]) if len(sys.argv)>4 else {})
cfg=tlc.cfg_text(constants={'Sym':syms,'MaxSym':n,'MaxDepth':3,'Free':False,'Mode':MODE},invariants=['SrcIsConc','AnchorsInSrc','AnchorsOrdered','FinalKeeps','Dump'])
r=c.tlc('gen','Gen',cfg)
beh=r.json('@@'); print('docs',len(beh),'states',r.distinct)
cases=[{'id':i,'doc':b['doc'],'src':b['src'],'opts':OPT} for i,b in enumerate(beh)]
recs=c.drive(cases,drivers.drive_filter)
bad=[x for x in recs if x['outcome']!='returned']; print('not returned',len(bad), bad[:2])
V=c.validate('obs','Obs',[x for x in recs if x['outcome']=='returned'],project=lambda x:dict({k:x[k] for k in('id','doc','src','plain','map')},ndef=0,prefix=[],lang=[],seqs=False,unkn=bool(OPT.get('unkn')),extr=bool(OPT.get('extr')),diags=x.get('diags',[])))
cnt=collections.Counter(); ex={}
for x in recs:
    v=V.get(x['id'])
    if not v: continue
    for k in ('c01','c02','c03','c04','c05','c10','c11','c08','c18','c19'):
        if v.get(k,'ok') not in('ok','skipped'):
            key=k+':'+v[k].split('@')[0].split('-at-')[0]
            cnt[key]+=1
            if key not in ex or len(x['src'])<len(ex[key][0]['src']): ex[key]=(x,v[k])
print(cnt)
for k,(x,m) in ex.items(): print(k,m,'\n   doc=%s\n   src=%r\n   plain=%r\n   map=%s'%(' '.join(x['doc']),chars.dec(x['src']),chars.dec(x['plain']),x['map']))
