#!/usr/bin/env python3
"""seeded changes: copies new ones from the sub-agents' delivery directories (/tmp/seed_out*/<Cxx>/<id>/) into /verif/seeded/<id>/
(patch.diff, demo.py, meta.json) and refreshes 'confirmation' and 'detection' in every meta.json from the confirm.json /
detect_<tier>.json that tools/seedtest.py wrote next to it"""
import glob, json, os, shutil
DST = os.path.join(os.path.dirname(os.path.dirname(os.path.abspath(__file__))), 'seeded')
for d in sorted(glob.glob('/tmp/seed_out*/C*/C*')):
    sid = os.path.basename(d)
    out = os.path.join(DST, sid)
    if os.path.exists(os.path.join(out, 'meta.json')):
        continue
    os.makedirs(out, exist_ok=True)
    for f in ('patch.diff', 'demo.py', 'meta.json', 'confirm.json'):
        if os.path.exists(os.path.join(d, f)):
            shutil.copy(os.path.join(d, f), os.path.join(out, f))
rows = []
for out in sorted(glob.glob(DST + '/C*')):
    sid = os.path.basename(out)
    meta = json.load(open(os.path.join(out, 'meta.json')))
    meta['breaks_property'] = meta.get('property')
    cp = os.path.join(out, 'confirm.json')
    if os.path.exists(cp):
        conf = json.load(open(cp))
        meta['confirmation'] = {
            'what_i_ran': 'tools/seedtest.py confirm: scratch worktree of /repo HEAD %s outside /repo and /verif; demo.py without the patch (exit %s), '
                          'git apply patch.diff, demo.py with the patch (exit %s), the repository test suite in a private network namespace (%s); worktree removed'
                          % (conf.get('head'), conf.get('demo_without'), conf.get('demo_with'), (conf.get('suite_tail') or '').strip().split('\n')[-1]),
            'confirmed': conf.get('confirmed'),
        }
    det = {}
    for tier in ('quick', 'thorough'):
        p = os.path.join(out, 'detect_%s.json' % tier)
        if os.path.exists(p):
            dj = json.load(open(p))
            det[tier] = {k: {'exit': v['exit'], 'violations': v['violations'], 'first': v['first'][:1], 'wall_s': v['wall_s']} for k, v in dj.get('checks', {}).items()}
    if det:
        meta['detection'] = {'what_i_ran': 'tools/seedtest.py detect: git -C /repo apply patch.diff; ./run.py <property> --tier quick; git -C /repo checkout -- .', 'result': det}
    json.dump(meta, open(os.path.join(out, 'meta.json'), 'w'), indent=1)
    rows.append((sid, (meta.get('confirmation') or {}).get('confirmed'), {k: v['exit'] for t in det.values() for k, v in t.items()}))
for r in rows:
    print(r)
