#!/usr/bin/env python3
"""copies the confirmed seeded changes from /tmp/seed_out into /verif/seeded/<id>/ (patch.diff, demo.py, meta.json)"""
import glob, json, os, shutil
ROOT = '/tmp/seed_out'
DST = os.path.join(os.path.dirname(os.path.dirname(os.path.abspath(__file__))), 'seeded')
rows = []
for d in sorted(glob.glob(ROOT + '/C*/C*')):
    sid = os.path.basename(d)
    out = os.path.join(DST, sid)
    os.makedirs(out, exist_ok=True)
    for f in ('patch.diff', 'demo.py'):
        shutil.copy(os.path.join(d, f), os.path.join(out, f))
    meta = json.load(open(os.path.join(d, 'meta.json')))
    conf = json.load(open(os.path.join(d, 'confirm.json'))) if os.path.exists(os.path.join(d, 'confirm.json')) else {}
    meta['breaks_property'] = meta.get('property')
    meta['confirmation'] = {
        'what_i_ran': 'tools/seedtest.py confirm: scratch worktree of /repo HEAD %s outside /repo and /verif; demo.py without the patch (exit %s), '
                      'git apply patch.diff, demo.py with the patch (exit %s), the repository test suite in a private network namespace (%s); worktree removed'
                      % (conf.get('head'), conf.get('demo_without'), conf.get('demo_with'), (conf.get('suite_tail') or '').strip().split('\n')[-1]),
        'confirmed': conf.get('confirmed'),
    }
    det = {}
    for tier in ('quick', 'thorough'):
        p = os.path.join(d, 'detect_%s.json' % tier)
        if os.path.exists(p):
            dj = json.load(open(p))
            det[tier] = {k: {'exit': v['exit'], 'violations': v['violations'], 'first': v['first'][:1], 'wall_s': v['wall_s']} for k, v in dj.get('checks', {}).items()}
    meta['detection'] = {'what_i_ran': 'tools/seedtest.py detect: git -C /repo apply patch.diff; ./run.py <property> --tier quick; git -C /repo checkout -- .', 'result': det}
    json.dump(meta, open(os.path.join(out, 'meta.json'), 'w'), indent=1)
    rows.append((sid, conf.get('confirmed'), {k: v['exit'] for t in det.values() for k, v in t.items()}))
for r in rows:
    print(r)
